---------------------------- MODULE Obfs4Shaping ----------------------------
(***************************************************************************)
(* obfs4 traffic shaping (C09): the padding arithmetic of padBurst() and   *)
(* the chop / pad / IAT loop of Write(), with the real constants (pure     *)
(* integer arithmetic).  Samples of the length distribution are            *)
(* nondeterministic choices from Table.                                    *)
(*   ZeroSampleGuarded = FALSE is the pinned code (D2): a sampled length   *)
(*   of 0 in paranoid mode reaches panic("BUG: Write(), iat length was 0") *)
(***************************************************************************)
EXTENDS Integers, Sequences, FiniteSets, TLC, PadBurst

CONSTANTS Table,              \* the value table of the length distribution (subset of 0..1448)
          WriteSizes,         \* application write sizes to explore
          ZeroSampleGuarded,
          Modes,              \* IAT modes to explore (subset of {0, 1, 2})
          TrackTotals         \* FALSE: do not accumulate totals in paranoid mode (liveness configs, no VIEW)

\* ---- Write ----
NFrames(n) == (n + MaxPay - 1) \div MaxPay
DataLen(n) == n + Hdr * NFrames(n)        \* n bytes chopped into <=1427-byte packets, one frame each
\* burst total for an n-byte write padded to sample v (IAT modes 0 and 1)
Expected(n, v) == DataLen(n) + Added(DataLen(n) % Seg, v)

VARIABLES mode,        \* 0 none, 1 enabled, 2 paranoid
          pc, buf,     \* program counter, bytes in frameBuf
          last,        \* size of the last write to the network made by this Write() (0: none yet)
          sum,         \* total written to the network by this Write()
          pieces,      \* number of writes to the network
          written,     \* application bytes of this Write()
          resampled
vars == <<mode, pc, buf, last, sum, pieces, written, resampled>>

Init == /\ mode \in Modes /\ pc = "start" /\ buf = 0 /\ last = 0 /\ sum = 0 /\ pieces = 0
        /\ written = 0 /\ resampled = 0
Emit(k) == /\ last' = k
           /\ IF TrackTotals \/ mode # 2 THEN sum' = sum + k /\ pieces' = pieces + 1
              ELSE sum' = sum /\ pieces' = 1
Chop == /\ pc = "start" /\ \E n \in WriteSizes : buf' = DataLen(n) /\ written' = n
        /\ pc' = (IF mode = 2 THEN "iat" ELSE "pad") /\ UNCHANGED <<mode, last, sum, pieces, resampled>>
Pad == /\ pc = "pad" /\ \E t \in Table : buf' = buf + Added(buf % Seg, t)
       /\ pc' = (IF mode = 0 THEN "flush" ELSE "iat") /\ UNCHANGED <<mode, last, sum, pieces, written, resampled>>
Flush == /\ pc = "flush" /\ Emit(buf) /\ buf' = 0 /\ pc' = "done"
         /\ UNCHANGED <<mode, written, resampled>>
Iat1 == /\ pc = "iat" /\ mode = 1 /\ buf > 0
        /\ LET k == IF buf > Seg THEN Seg ELSE buf IN Emit(k) /\ buf' = buf - k
        /\ UNCHANGED <<mode, pc, written, resampled>>
Iat2 == /\ pc = "iat" /\ mode = 2 /\ buf > 0
        /\ \E t \in Table :
             IF t = 0 /\ ZeroSampleGuarded THEN UNCHANGED <<buf, last, sum, pieces, pc, resampled>>        \* resample
             ELSE IF buf < t
             THEN LET b2 == buf + Added(buf % Seg, t) IN
                    IF b2 # t THEN buf' = b2 /\ pc' = pc /\ resampled' = resampled + 1 /\ UNCHANGED <<last, sum, pieces>>
                    ELSE buf' = 0 /\ Emit(t) /\ pc' = pc /\ resampled' = 0
             ELSE IF t = 0 THEN pc' = "panic" /\ UNCHANGED <<buf, last, sum, pieces, resampled>>
             ELSE buf' = buf - t /\ Emit(t) /\ pc' = pc /\ resampled' = 0
        /\ UNCHANGED <<mode, written>>
IatDone == pc = "iat" /\ buf = 0 /\ pc' = "done" /\ UNCHANGED <<mode, buf, last, sum, pieces, written, resampled>>
Next == Chop \/ Pad \/ Flush \/ Iat1 \/ Iat2 \/ IatDone
Spec == Init /\ [][Next]_vars /\ WF_vars(Next)

NoPanic == pc # "panic"
\* no IAT-mode write exceeds 1448 bytes or is empty (checked on every write as it is made)
PieceLeSeg == (mode # 0 /\ pieces > 0) => (last <= Seg /\ last > 0)
\* paranoid writes are each exactly a sampled non-zero length
ParanoidPieceIsSample == (mode = 2 /\ pieces > 0) => (last \in Table /\ last > 0)
\* the burst ends on a sampled target (modes 0 and 1)
BurstEndsOnTarget == (pc = "done" /\ mode # 2) => \E v \in Table : sum = Expected(written, v)
\* standard IAT mode writes full segments except for the last one
FullSegments == (mode = 1 /\ pc = "iat" /\ buf > 0 /\ pieces > 0) => last = Seg
\* the resample branch is taken at most once per piece (the buffer then exceeds any target)
ResampleAtMostOnce == resampled <= 1
NothingLost == (pc = "done" /\ (TrackTotals \/ mode # 2)) => sum >= DataLen(written)
\* a zero-byte write in paranoid mode puts nothing on the wire
EmptyParanoidWrite == (mode = 2 /\ written = 0 /\ pc # "start") => (sum = 0 /\ pieces = 0)
\* Write terminates.  Checked as a temporal property for modes 0 and 1 (bounded loops).  In paranoid
\* mode termination is only probabilistic (an adversarial sampler can alternate overshooting padding
\* and small pieces forever), so what is checked there is that a progressing sample always exists:
Terminates == <>(pc \in {"done", "panic"})
NotStuckParanoid == (mode = 2 /\ pc = "iat" /\ buf > 0) => \E t \in Table : t > 0
\* VIEW: in paranoid mode the running total is history (every piece is checked when it is made)
View == <<mode, pc, buf, written, resampled, last, IF mode = 2 THEN 0 ELSE sum, IF mode = 2 THEN 0 ELSE pieces>>
=============================================================================
