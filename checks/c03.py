"""C03 - obfs4 server is silent to anyone who cannot prove knowledge of the bridge line.

specs:    specs/obfs4/Obfs4Probe.tla (implementation shaped: handshake deadline, failure funnel, drop deadline, discard,
          close; exhaustive over probe classes x timer / peer-close orders), Obfs4ProbeTrace.tla (property level)
binding:  every probe script of the model (TLC-generated) is concretised with bytes from the reference client
          (random strings of critical lengths, truncated / extended / bit-flipped valid handshakes, wrong hour, wrong
          identity, replays, too little padding) and played against the REAL WrapConn on a wire object with virtual
          deadlines, several connections per bridge over many bridge seeds; TLC validates: no byte before a valid
          handshake, handshake deadline at accept+30 s, ONE drop deadline per bridge in [30 s, 90 s) identical for every
          kind of failure and relative to accept, close only at that deadline or on peer close.
"""
import hashlib, json, random
from vlib.core import Inconclusive

BADMAC = ["macbit", "padbit", "markbit", "reprbit", "hour+2", "hour-2", "hour+3", "hour-3", "otherid", "replay", "shortpad", "loworder0", "loworder1"]


def run(ctx):
    quick = ctx.quick()
    ctx.tlc_expect_ok("Obfs4Probe", "Obfs4Probe_cd0.cfg", label="probe model, closeDelay = 0 variant")
    out, _ = ctx.tlc_emit("Obfs4Probe", "Obfs4Probe_MC.cfg", tag="PROBE", label="probe model: exhaustive + script generation", count=True)
    seen, scripts = set(), []
    for _n, h in out:
        k = json.dumps(h)
        if k not in seen and h:
            seen.add(k)
            scripts.append(h)
    if len(scripts) < 100:
        raise Inconclusive("only %d probe scripts" % len(scripts))
    rng = random.Random(ctx.seed * 40692 + 3)
    rng.shuffle(scripts)
    nbridges = 12 if quick else 200
    per = 14 if quick else 50
    scen = []
    k = 0
    for bi in range(nbridges):
        conns = []
        for j in range(per):
            h = scripts[k % len(scripts)]
            k += 1
            steps = []
            for x in h:
                if x["a"] == "feed":
                    st = {"a": "feed", "c": x["c"]}
                    if x["c"] == "badmac":
                        st["v"] = BADMAC[(k + len(steps) + bi) % len(BADMAC)]
                    if rng.random() < 0.15:
                        steps.append({"a": "pause", "n": 250})     # real time passes before the (possibly failing) input
                    steps.append(st)
                else:
                    steps.append({"a": x["a"]})
            conns.append({"steps": steps})
        # every bridge also sees every kind of definitive failure once, so that the drop delay is compared across kinds
        for v in BADMAC:
            conns.append({"steps": [{"a": "pause", "n": 250 if v in ("macbit", "replay") else 0}, {"a": "feed", "c": "badmac", "v": v}]})
        conns.append({"steps": [{"a": "feed", "c": "oversize"}]})
        # a rejected connection keeps reading and discarding however much arrives: the closing time is a time, not a byte count
        conns.append({"steps": [{"a": "feed", "c": "badmac", "v": "macbit"}, {"a": "feed", "c": "flood"}]})
        conns.append({"steps": [{"a": "feed", "c": "junk"}, {"a": "feed", "c": "flood"}, {"a": "feed", "c": "flood"}]})
        # a valid handshake in pieces, the completing piece with trailing bytes (every bridge: the padding lengths vary)
        for _ in range(3):
            conns.append({"steps": [{"a": "feed", "c": "partial"}, {"a": "feed", "c": "partial"}, {"a": "feed", "c": "validplus"}]})
        conns.append({"steps": [{"a": "feed", "c": "validplus"}]})
        conns.append({"steps": [{"a": "fire"}]})
        conns.append({"steps": []})
        seed = hashlib.sha256(b"c03-%d-%d" % (ctx.seed, bi)).hexdigest()[:48]
        scen.append({"id": "bridge%d" % bi, "seed": seed, "conns": conns, "rseed": ctx.seed * 1000 + bi})
    binary = ctx.go_build("./cmd/c03")
    traces = ctx.exec_scenarios(binary, scen, "c03", shards=12, timeout=3000)
    if len(traces) != len(scen) and not any(t.get("crashed") for t in traces):
        raise Inconclusive("%d scenarios, %d traces" % (len(scen), len(traces)))
    traces = ctx.drop_dead(traces)
    nconn = sum(1 for t in traces for e in t["events"] if e.get("event") == "Accept")
    delays = sorted({e["dt"] // 1000 for t in traces for e in t["events"] if e.get("event") == "Deadline" and e.get("kind") == "r"})
    if not traces:
        raise Inconclusive("every scenario died in the driver")
    ctx.sample({"bridge": traces[0]["scenario"]["seed"], "events": traces[0]["events"][:14]})
    rejected = ctx.validate("Obfs4ProbeTrace", "Obfs4ProbeTrace.cfg", traces, label="trace validation", timeout=1800, max_rejects=6)
    ctx.log("%d bridges, %d probe connections, drop delays seen (s): %s, %d rejected" % (len(traces), nconn, delays, len(rejected)))

    def reexec(tr):
        t2 = ctx.exec_scenarios(binary, [tr["scenario"]], "re", timeout=900)
        rej = ctx.validate("Obfs4ProbeTrace", "Obfs4ProbeTrace.cfg", t2, label="re-validation")
        return rej[0] if rej else None
    ctx.settle(rejected, reexec, lambda tr: "obfs4 server behaviour towards a probe rejected at event %s: %s (bridge seed %s)" % (
        tr["reject"]["at_event_index"], json.dumps(tr["reject"]["event"])[:300], tr["scenario"]["seed"]), attempts=2)
    ctx.assumptions += ["deadlines are virtual: the wire object records Set*Deadline values and fires the armed one when the script says so",
                        "deadline values are compared relative to the time of the WrapConn call with a tolerance of 120 ms (the code reads the clock itself); "
                        "a 250 ms real pause before failing input separates 'relative to accept' from 'relative to failure'",
                        "probe bytes come from the reference client (trusted)"]
    return ctx.finish("model_checking", extra_cov={"probe_connections": nconn, "bridges": len(traces), "scripts": len(scripts), "drop_delays_seen_s": delays,
                      "rule": "every script of Obfs4Probe.tla (<=3 feeds x fire / peer close orders) concretised with class bytes, spread over bridges; every "
                              "bridge additionally sees each definitive failure kind once"})


def replay(ctx, path):
    v = json.load(open(path))
    binary = ctx.go_build("./cmd/c03")
    traces = ctx.exec_scenarios(binary, [v["scenario"]], "replay", timeout=900)
    for t in ctx.validate("Obfs4ProbeTrace", "Obfs4ProbeTrace.cfg", traces, label="replay"):
        ctx.report_violation(t, "replayed scenario rejected")
    return ctx.finish("model_checking")
