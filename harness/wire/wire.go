// Package wire provides an in-memory duplex net.Conn pair that is completely
// under the control of the verification harness:
//
//   - bytes written by an endpoint go to its OUTBOX; the harness (a scripted
//     network / middlebox) takes them and DELIVERS them to the peer's INBOX in
//     whatever segmentation it likes, possibly altered, duplicated, dropped,
//     followed by EOF or an error; in Auto mode bytes flow directly, cut into
//     segments of a configurable maximum size;
//   - deadlines are VIRTUAL: Set*Deadline calls are recorded with their value
//     and an armed read deadline fires only when the script says so (or when
//     it is set in the past), so 30..90 s timers cost nothing;
//   - the connection knows, under its own lock, whether an endpoint is PARKED
//     (blocked in Read with nothing deliverable), which turns "becomes
//     readable without further traffic" and "returns instead of wedging" into
//     state predicates instead of wall-clock timeouts.
//
// One Read returns bytes of at most one delivered segment.
package wire

import (
	"errors"
	"io"
	"net"
	"os"
	"sync"
	"time"
)

// DeadlineCall records one Set*Deadline call.
type DeadlineCall struct {
	Kind string // "rw", "r", "w"
	At   time.Time
	Zero bool
	When time.Time // wall clock at the time of the call
}

type timeoutError struct{}

func (timeoutError) Error() string   { return "i/o timeout" }
func (timeoutError) Timeout() bool   { return true }
func (timeoutError) Temporary() bool { return true }
func (timeoutError) Unwrap() error   { return os.ErrDeadlineExceeded }

// ErrTimeout is what a fired deadline returns (a net.Error with Timeout()).
var ErrTimeout net.Error = timeoutError{}

// Link is a pair of endpoints sharing one lock.
type Link struct {
	mu   sync.Mutex
	cond *sync.Cond
	A, B *Conn
	// Hook, if set, is called under the link's lock for every observable
	// action of an endpoint: ("write", data), ("close", nil),
	// ("deadline-rw|r|w", nil).  It must not call back into the link.
	Hook func(c *Conn, what string, data []byte)
}

// Conn is one endpoint (implements net.Conn).
type Conn struct {
	Name string
	l    *Link
	peer *Conn

	auto   bool // bytes written flow to the peer immediately
	maxSeg int  // auto mode: maximum segment size (0 = unlimited)

	inbox  [][]byte
	inEOF  bool
	inErr  error
	outbox []byte

	closed      bool
	rArmed      bool
	rFired      bool
	wFired      bool
	wArmed      bool
	rDeadline   time.Time
	blockedW    int // goroutines blocked in Write on the send window
	parked      int // goroutines blocked in Read with nothing deliverable
	inRead      int
	readCalls   int
	BytesRead   int
	BytesWrit   int
	Writes      []int
	Deadlines   []DeadlineCall
	CloseCalls  int
	window      int // manual mode: Write blocks while this many bytes are waiting in the outbox (0 = unbounded)
	localAddr   net.Addr
	remoteAddr  net.Addr
	writeErr    error // injected: next writes fail
	writeBudget int
	// WriteGate, if set (before the connection is used), is called at the very start of every Write with no lock held
	// and before the data is copied: blocking in it holds the writer INSIDE its Write while something else happens.
	WriteGate    func(c *Conn, n int)
	stalled      bool
	eofWithData  bool
	writeBudgErr error
	readBudget   int // inject read error after this many more bytes (-1 = off)
	readBudgErr  error
}

// NewLink creates a connected pair. auto=true gives a plain buffered pipe.
func NewLink(auto bool, maxSeg int) *Link {
	l := &Link{}
	l.cond = sync.NewCond(&l.mu)
	l.A = &Conn{Name: "A", l: l, auto: auto, maxSeg: maxSeg, readBudget: -1}
	l.B = &Conn{Name: "B", l: l, auto: auto, maxSeg: maxSeg, readBudget: -1}
	l.A.peer, l.B.peer = l.B, l.A
	return l
}

func (c *Conn) hook(what string, data []byte) {
	if c.l.Hook != nil {
		c.l.Hook(c, what, data)
	}
}

// ---- net.Conn ----

func (c *Conn) Read(b []byte) (int, error) {
	l := c.l
	l.mu.Lock()
	defer l.mu.Unlock()
	c.readCalls++
	c.inRead++
	defer func() { c.inRead-- }()
	for {
		if c.closed {
			return 0, net.ErrClosed
		}
		if c.rArmed && c.rFired {
			return 0, ErrTimeout
		}
		if len(b) == 0 {
			return 0, nil
		}
		if len(c.inbox) > 0 {
			seg := c.inbox[0]
			n := copy(b, seg)
			if c.readBudget >= 0 && n > c.readBudget {
				n = c.readBudget
			}
			if n == 0 && c.readBudget == 0 {
				e := c.readBudgErr
				return 0, e
			}
			if c.readBudget >= 0 {
				c.readBudget -= n
			}
			if n == len(seg) {
				c.inbox = c.inbox[1:]
			} else {
				c.inbox[0] = seg[n:]
			}
			c.BytesRead += n
			l.cond.Broadcast()
			if c.eofWithData && c.inEOF && len(c.inbox) == 0 {
				// io.Reader allows the last bytes and the end of the stream in ONE call (n > 0, io.EOF)
				return n, io.EOF
			}
			return n, nil
		}
		if c.readBudget == 0 {
			return 0, c.readBudgErr
		}
		if c.inErr != nil {
			return 0, c.inErr
		}
		if c.inEOF {
			return 0, io.EOF
		}
		c.parked++
		l.cond.Broadcast()
		l.cond.Wait()
		c.parked--
	}
}

func (c *Conn) Write(b []byte) (int, error) {
	l := c.l
	if g := c.WriteGate; g != nil {
		g(c, len(b)) // a scheduler gate: the caller is inside Write, its buffer has not been looked at yet
	}
	l.mu.Lock()
	defer l.mu.Unlock()
	if c.closed {
		return 0, net.ErrClosed
	}
	if c.wFired {
		return 0, ErrTimeout
	}
	if c.writeErr != nil {
		return 0, c.writeErr
	}
	if c.writeBudgErr != nil && len(b) > c.writeBudget {
		// the connection breaks inside this Write: the first writeBudget bytes made it out
		k := c.writeBudget
		c.writeErr, c.writeBudgErr, c.writeBudget = c.writeBudgErr, nil, 0
		if k > 0 {
			c.Writes = append(c.Writes, k)
			c.BytesWrit += k
			c.hook("write", b[:k])
			cp := append([]byte(nil), b[:k]...)
			if c.auto {
				c.peer.deliverLocked(cp, c.maxSeg)
			} else {
				c.outbox = append(c.outbox, cp...)
			}
			l.cond.Broadcast()
		}
		return k, c.writeErr
	}
	if c.writeBudgErr != nil {
		c.writeBudget -= len(b)
	}
	if c.auto && c.peer.closed {
		return 0, io.ErrClosedPipe
	}
	c.Writes = append(c.Writes, len(b))
	c.BytesWrit += len(b)
	c.hook("write", b)
	if len(b) == 0 {
		return 0, nil
	}
	// the peer does not drain: the Write blocks (after having been observed) until it is drained again or closed
	for c.stalled && !c.closed {
		c.blockedW++
		l.cond.Broadcast()
		l.cond.Wait()
		c.blockedW--
	}
	if c.closed {
		return 0, net.ErrClosed
	}
	cp := append([]byte(nil), b...)
	if c.auto {
		c.peer.deliverLocked(cp, c.maxSeg)
	} else if c.window <= 0 {
		c.outbox = append(c.outbox, cp...)
	} else {
		// back-pressure: the network accepts at most `window` unsent bytes; the rest of the Write blocks
		for len(cp) > 0 {
			for len(c.outbox) >= c.window && !c.closed {
				c.blockedW++
				l.cond.Broadcast()
				l.cond.Wait()
				c.blockedW--
			}
			if c.closed {
				return len(b) - len(cp), net.ErrClosed
			}
			k := c.window - len(c.outbox)
			if k > len(cp) {
				k = len(cp)
			}
			c.outbox = append(c.outbox, cp[:k]...)
			cp = cp[k:]
			l.cond.Broadcast()
		}
	}
	l.cond.Broadcast()
	return len(b), nil
}

// StallWrites(true) makes Writes block (back-pressure: the peer stopped reading) until StallWrites(false) or Close.
func (c *Conn) StallWrites(on bool) {
	c.l.mu.Lock()
	c.stalled = on
	c.l.cond.Broadcast()
	c.l.mu.Unlock()
}

// SetWindow bounds the number of written-but-untaken bytes (manual mode); Writes block beyond it.
func (c *Conn) SetWindow(n int) {
	c.l.mu.Lock()
	c.window = n
	c.l.cond.Broadcast()
	c.l.mu.Unlock()
}

func (c *Conn) Close() error {
	l := c.l
	l.mu.Lock()
	defer l.mu.Unlock()
	c.CloseCalls++
	if c.closed {
		return net.ErrClosed
	}
	c.closed = true
	c.hook("close", nil)
	if c.auto {
		c.peer.inEOF = true
	}
	l.cond.Broadcast()
	return nil
}

type addr string

func (a addr) Network() string { return "tcp" }
func (a addr) String() string  { return string(a) }

// SetAddrs overrides the addresses the endpoint reports (nil keeps the default).
func (c *Conn) SetAddrs(local, remote net.Addr) {
	c.l.mu.Lock()
	c.localAddr, c.remoteAddr = local, remote
	c.l.mu.Unlock()
}

func (c *Conn) LocalAddr() net.Addr {
	if c.localAddr != nil {
		return c.localAddr
	}
	if c.Name == "A" {
		return &net.TCPAddr{IP: net.IPv4(127, 0, 0, 1), Port: 40001}
	}
	return &net.TCPAddr{IP: net.IPv4(127, 0, 0, 1), Port: 40002}
}
func (c *Conn) RemoteAddr() net.Addr {
	if c.remoteAddr != nil {
		return c.remoteAddr
	}
	return c.peer.LocalAddr()
}

func (c *Conn) setDeadline(kind string, t time.Time) error {
	l := c.l
	l.mu.Lock()
	defer l.mu.Unlock()
	if c.closed {
		return net.ErrClosed
	}
	now := time.Now()
	c.Deadlines = append(c.Deadlines, DeadlineCall{Kind: kind, At: t, Zero: t.IsZero(), When: now})
	if kind == "rw" || kind == "r" {
		c.rArmed = !t.IsZero()
		c.rDeadline = t
		c.rFired = c.rArmed && !t.After(now)
	}
	if kind == "rw" || kind == "w" {
		c.wArmed = !t.IsZero()
		c.wFired = !t.IsZero() && !t.After(now)
	}
	c.hook("deadline-"+kind, nil)
	l.cond.Broadcast()
	return nil
}

func (c *Conn) SetDeadline(t time.Time) error      { return c.setDeadline("rw", t) }
func (c *Conn) SetReadDeadline(t time.Time) error  { return c.setDeadline("r", t) }
func (c *Conn) SetWriteDeadline(t time.Time) error { return c.setDeadline("w", t) }

// ---- harness side ----

func (c *Conn) deliverLocked(seg []byte, maxSeg int) {
	for len(seg) > 0 {
		n := len(seg)
		if maxSeg > 0 && n > maxSeg {
			n = maxSeg
		}
		c.inbox = append(c.inbox, seg[:n])
		seg = seg[n:]
	}
}

// Deliver makes seg readable by this endpoint as ONE segment.
func (c *Conn) Deliver(seg []byte) {
	if len(seg) == 0 {
		return
	}
	c.l.mu.Lock()
	c.inbox = append(c.inbox, append([]byte(nil), seg...))
	c.l.cond.Broadcast()
	c.l.mu.Unlock()
}

// DeliverWithEOF appends a final segment and the end of the stream in one step; the Read that takes the last of it
// returns (n > 0, io.EOF), as buffered / tunnelled connections do (kernel TCP never does).
func (c *Conn) DeliverWithEOF(seg []byte) {
	c.l.mu.Lock()
	if len(seg) > 0 {
		c.deliverLocked(append([]byte(nil), seg...), 0)
	}
	c.inEOF = true
	c.eofWithData = len(seg) > 0
	c.l.cond.Broadcast()
	c.l.mu.Unlock()
}

// DeliverEOF makes Read return io.EOF once the inbox is drained.
func (c *Conn) DeliverEOF() {
	c.l.mu.Lock()
	c.inEOF = true
	c.l.cond.Broadcast()
	c.l.mu.Unlock()
}

// DeliverErr makes Read return err once the inbox is drained.
func (c *Conn) DeliverErr(err error) {
	c.l.mu.Lock()
	c.inErr = err
	c.l.cond.Broadcast()
	c.l.mu.Unlock()
}

// FailReadAfter makes Read fail with err after n more bytes have been read.
func (c *Conn) FailReadAfter(n int, err error) {
	c.l.mu.Lock()
	c.readBudget, c.readBudgErr = n, err
	c.l.cond.Broadcast()
	c.l.mu.Unlock()
}

// FailWritesAfter lets n more bytes out and then makes Writes fail with err (the Write that crosses the limit
// reports the bytes that made it).
func (c *Conn) FailWritesAfter(n int, err error) {
	c.l.mu.Lock()
	c.writeBudget, c.writeBudgErr = n, err
	c.l.mu.Unlock()
}

// FailWrites makes subsequent Writes fail with err.
func (c *Conn) FailWrites(err error) {
	c.l.mu.Lock()
	c.writeErr = err
	c.l.mu.Unlock()
}

// FireReadDeadline fires the armed read deadline (virtual time). Returns
// false if none is armed.
func (c *Conn) FireReadDeadline() bool {
	c.l.mu.Lock()
	defer c.l.mu.Unlock()
	if !c.rArmed {
		return false
	}
	c.rFired = true
	c.l.cond.Broadcast()
	return true
}

// FireWriteDeadline lets the endpoint's armed WRITE deadline expire now (virtual time); false if none is armed.
func (c *Conn) FireWriteDeadline() bool {
	c.l.mu.Lock()
	defer c.l.mu.Unlock()
	if !c.wArmed {
		return false
	}
	c.wFired = true
	c.l.cond.Broadcast()
	return true
}

// Take removes and returns everything the endpoint has written so far
// (manual mode).
func (c *Conn) Take() []byte {
	c.l.mu.Lock()
	defer c.l.mu.Unlock()
	b := c.outbox
	c.outbox = nil
	c.l.cond.Broadcast()
	return b
}

// Pending is the number of written-but-not-taken bytes.
func (c *Conn) Pending() int {
	c.l.mu.Lock()
	defer c.l.mu.Unlock()
	return len(c.outbox)
}

// Undelivered is the number of bytes in the inbox not yet read.
func (c *Conn) Undelivered() int {
	c.l.mu.Lock()
	defer c.l.mu.Unlock()
	n := 0
	for _, s := range c.inbox {
		n += len(s)
	}
	return n
}

// State is a snapshot of an endpoint.
type State struct {
	Closed, Parked, RArmed, RFired bool
	RDeadline                      time.Time
	Inbox, Outbox                  int
	BytesRead, BytesWrit           int
	ReadCalls, InRead              int
	CloseCalls                     int
	BlockedWriters                 int
}

func (c *Conn) stateLocked() State {
	n := 0
	for _, s := range c.inbox {
		n += len(s)
	}
	return State{Closed: c.closed, Parked: c.parked > 0 && n == 0, RArmed: c.rArmed, RFired: c.rFired,
		RDeadline: c.rDeadline, Inbox: n, Outbox: len(c.outbox), BytesRead: c.BytesRead, BytesWrit: c.BytesWrit,
		ReadCalls: c.readCalls, InRead: c.inRead, CloseCalls: c.CloseCalls, BlockedWriters: c.blockedW}
}

func (c *Conn) State() State {
	c.l.mu.Lock()
	defer c.l.mu.Unlock()
	return c.stateLocked()
}

// DeadlineLog returns a copy of the recorded Set*Deadline calls.
func (c *Conn) DeadlineLog() []DeadlineCall {
	c.l.mu.Lock()
	defer c.l.mu.Unlock()
	return append([]DeadlineCall(nil), c.Deadlines...)
}

// WriteLog returns a copy of the recorded Write sizes.
func (c *Conn) WriteLog() []int {
	c.l.mu.Lock()
	defer c.l.mu.Unlock()
	return append([]int(nil), c.Writes...)
}

// ErrWaitTimeout is returned by the Wait* functions when the condition did
// not become true in time (a dead driver, not a verdict).
var ErrWaitTimeout = errors.New("wire: wait timed out")

// WaitFor blocks until pred (evaluated under the link lock, on snapshots of
// both endpoints) holds, or the timeout expires.
func (l *Link) WaitFor(timeout time.Duration, pred func(a, b State) bool) error {
	deadline := time.Now().Add(timeout)
	stop := make(chan struct{})
	defer close(stop)
	go func() { // wake the waiter periodically so that the timeout is honoured
		t := time.NewTicker(20 * time.Millisecond)
		defer t.Stop()
		for {
			select {
			case <-stop:
				return
			case <-t.C:
				l.mu.Lock()
				l.cond.Broadcast()
				l.mu.Unlock()
			}
		}
	}()
	l.mu.Lock()
	defer l.mu.Unlock()
	for {
		if pred(l.A.stateLocked(), l.B.stateLocked()) {
			return nil
		}
		if time.Now().After(deadline) {
			return ErrWaitTimeout
		}
		l.cond.Wait()
	}
}

// WaitParked waits until this endpoint is blocked in Read with an empty
// inbox, or is closed.
func (c *Conn) WaitParked(timeout time.Duration) error {
	return c.l.WaitFor(timeout, func(a, b State) bool {
		s := a
		if c == c.l.B {
			s = b
		}
		return s.Parked || s.Closed
	})
}

// WaitOut waits until the endpoint has at least n untaken bytes in its
// outbox, or is closed.
func (c *Conn) WaitOut(n int, timeout time.Duration) error {
	return c.l.WaitFor(timeout, func(a, b State) bool {
		s := a
		if c == c.l.B {
			s = b
		}
		return s.Outbox >= n || s.Closed
	})
}
