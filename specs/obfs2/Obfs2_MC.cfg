SPECIFICATION Spec
CONSTANTS
    SeedLen = 2
    HdrLen = 2
    MaxPad = 2
    MaxData = 2
INVARIANTS RejectBadMagic RejectLongPad KeysCrossMatch DeliveredIsPrefix NoDataInHandshake
PROPERTY AllDelivered
CHECK_DEADLOCK FALSE
