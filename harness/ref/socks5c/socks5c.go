// Package refsocks5c builds the client side messages of SOCKS5 (RFC 1928),
// username/password authentication (RFC 1929) and the pluggable transport
// convention of passing per-connection arguments in the authentication fields
// (pt-spec.txt, "Pluggable Transport Client Per-Connection Arguments"), and
// parses the server's replies.  It exists to test a SOCKS5 server front end
// and does not import the implementation under test.
package refsocks5c

import (
	"encoding/binary"
	"errors"
	"fmt"
	"net"
	"sort"
	"strings"
)

// Constants of RFC 1928 / RFC 1929.
const (
	Version = 0x05

	MethodNone         = 0x00
	MethodGSSAPI       = 0x01
	MethodUserPass     = 0x02
	MethodNoAcceptable = 0xff

	CmdConnect      = 0x01
	CmdBind         = 0x02
	CmdUDPAssociate = 0x03

	AtypIPv4   = 0x01
	AtypDomain = 0x03
	AtypIPv6   = 0x04

	AuthVersion = 0x01
	AuthSuccess = 0x00

	RepSucceeded            = 0x00
	RepGeneralFailure       = 0x01
	RepConnectionNotAllowed = 0x02
	RepNetworkUnreachable   = 0x03
	RepHostUnreachable      = 0x04
	RepConnectionRefused    = 0x05
	RepTTLExpired           = 0x06
	RepCommandNotSupported  = 0x07
	RepAddressNotSupported  = 0x08

	// MaxAuthField is the capacity of the RFC 1929 username and password
	// fields.
	MaxAuthField = 255
)

// Errors.
var (
	ErrShort       = errors.New("refsocks5c: incomplete message")
	ErrBadVersion  = errors.New("refsocks5c: bad version byte")
	ErrBadReply    = errors.New("refsocks5c: malformed reply")
	ErrArgsTooLong = errors.New("refsocks5c: encoded arguments exceed 510 bytes")
	ErrEmptyKey    = errors.New("refsocks5c: empty argument key")
)

// Greeting is the version identifier / method selection message:
// 05 nmethods methods.
func Greeting(methods []byte) []byte {
	out := []byte{Version, byte(len(methods))}
	return append(out, methods...)
}

// UserPass is the RFC 1929 request: 01 ulen uname plen passwd.  Lengths are
// truncated to a byte; the fields are copied whole, so an over-long field
// yields a (deliberately) malformed message.
func UserPass(uname, passwd []byte) []byte {
	out := []byte{AuthVersion, byte(len(uname))}
	out = append(out, uname...)
	out = append(out, byte(len(passwd)))
	return append(out, passwd...)
}

// Request is a SOCKS5 request with an arbitrary command:
// 05 cmd 00 atyp addr port.
func Request(cmd, atyp byte, addr []byte, port uint16) []byte {
	out := []byte{Version, cmd, 0x00, atyp}
	out = append(out, addr...)
	return binary.BigEndian.AppendUint16(out, port)
}

// ConnectRequest is 05 01 00 atyp addr port.  addr is the address field as
// it goes on the wire (see IPv4, IPv6 and Domain).
func ConnectRequest(atyp byte, addr []byte, port uint16) []byte {
	return Request(CmdConnect, atyp, addr, port)
}

// IPv4 returns the address type and field for an IPv4 address.
func IPv4(ip net.IP) (atyp byte, addr []byte) {
	return AtypIPv4, append([]byte(nil), ip.To4()...)
}

// IPv6 returns the address type and field for an IPv6 address.
func IPv6(ip net.IP) (atyp byte, addr []byte) {
	return AtypIPv6, append([]byte(nil), ip.To16()...)
}

// Domain returns the address type and field (length prefixed) for a fully
// qualified domain name.
func Domain(name string) (atyp byte, addr []byte) {
	return AtypDomain, append([]byte{byte(len(name))}, name...)
}

// EscapeArg backslash-escapes ';', '=' and '\\'.
func EscapeArg(s string) string {
	var b strings.Builder
	for i := 0; i < len(s); i++ {
		switch s[i] {
		case ';', '=', '\\':
			b.WriteByte('\\')
		}
		b.WriteByte(s[i])
	}
	return b.String()
}

// EncodeArgString renders ordered key/value pairs as "k=v;k=v" with
// escaping.
func EncodeArgString(kv [][2]string) (string, error) {
	parts := make([]string, 0, len(kv))
	for _, p := range kv {
		if p[0] == "" {
			return "", ErrEmptyKey
		}
		parts = append(parts, EscapeArg(p[0])+"="+EscapeArg(p[1]))
	}
	return strings.Join(parts, ";"), nil
}

// SplitAuth distributes an argument string over the username and password
// fields the way tor does: everything in the username if it fits in 255
// bytes, with a single NUL as the password; otherwise the first 255 bytes in
// the username and the rest in the password.  An empty string yields nil,
// nil: tor then does not offer username/password authentication at all.
func SplitAuth(argStr string) (uname, passwd []byte, err error) {
	switch {
	case len(argStr) == 0:
		return nil, nil, nil
	case len(argStr) <= MaxAuthField:
		return []byte(argStr), []byte{0x00}, nil
	case len(argStr) <= 2*MaxAuthField:
		return []byte(argStr[:MaxAuthField]), []byte(argStr[MaxAuthField:]), nil
	}
	return nil, nil, fmt.Errorf("%w (%d)", ErrArgsTooLong, len(argStr))
}

// EncodePTArgs encodes pluggable transport arguments (keys sorted, the values
// of a key in order) into the RFC 1929 username and password fields.
func EncodePTArgs(args map[string][]string) (uname, passwd []byte, err error) {
	keys := make([]string, 0, len(args))
	for k := range args {
		keys = append(keys, k)
	}
	sort.Strings(keys)
	var kv [][2]string
	for _, k := range keys {
		for _, v := range args[k] {
			kv = append(kv, [2]string{k, v})
		}
	}
	return EncodePTArgsOrdered(kv)
}

// EncodePTArgsOrdered is EncodePTArgs for an explicit order of pairs.
func EncodePTArgsOrdered(kv [][2]string) (uname, passwd []byte, err error) {
	s, err := EncodeArgString(kv)
	if err != nil {
		return nil, nil, err
	}
	return SplitAuth(s)
}

// ParseMethodSelection parses the server's method selection message
// (05 method); n is the number of bytes consumed.
func ParseMethodSelection(b []byte) (method byte, n int, err error) {
	if len(b) < 2 {
		return 0, 0, ErrShort
	}
	if b[0] != Version {
		return 0, 0, ErrBadVersion
	}
	return b[1], 2, nil
}

// ParseAuthReply parses the RFC 1929 response (01 status).
func ParseAuthReply(b []byte) (status byte, n int, err error) {
	if len(b) < 2 {
		return 0, 0, ErrShort
	}
	if b[0] != AuthVersion {
		return 0, 0, ErrBadVersion
	}
	return b[1], 2, nil
}

// ParseReply parses the server's reply (05 rep 00 atyp bnd.addr bnd.port) at
// the start of b and returns the reply code, the address type and the number
// of bytes the reply occupies.  ErrShort means more bytes are needed.
func ParseReply(b []byte) (rep byte, atyp byte, n int, err error) {
	if len(b) < 1 {
		return 0, 0, 0, ErrShort
	}
	if b[0] != Version {
		return 0, 0, 0, ErrBadVersion
	}
	if len(b) < 4 {
		return 0, 0, 0, ErrShort
	}
	rep, atyp = b[1], b[3]
	if b[2] != 0x00 {
		return rep, atyp, 0, fmt.Errorf("%w: reserved byte %#02x", ErrBadReply, b[2])
	}
	switch atyp {
	case AtypIPv4:
		n = 4 + net.IPv4len + 2
	case AtypIPv6:
		n = 4 + net.IPv6len + 2
	case AtypDomain:
		if len(b) < 5 {
			return rep, atyp, 0, ErrShort
		}
		n = 4 + 1 + int(b[4]) + 2
	default:
		return rep, atyp, 0, fmt.Errorf("%w: address type %#02x", ErrBadReply, atyp)
	}
	if len(b) < n {
		return rep, atyp, 0, ErrShort
	}
	return rep, atyp, n, nil
}

// ReplyAddr extracts "host:port" from a complete reply (as delimited by
// ParseReply).
func ReplyAddr(b []byte) (string, error) {
	_, atyp, n, err := ParseReply(b)
	if err != nil {
		return "", err
	}
	port := binary.BigEndian.Uint16(b[n-2 : n])
	var host string
	switch atyp {
	case AtypIPv4, AtypIPv6:
		host = net.IP(b[4 : n-2]).String()
	case AtypDomain:
		host = string(b[5 : n-2])
	}
	return net.JoinHostPort(host, fmt.Sprint(port)), nil
}
