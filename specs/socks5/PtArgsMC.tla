------------------------------ MODULE PtArgsMC ------------------------------
(* Exhaustive checks of PtArgs: round trip for every small argument list, and *)
(* totality / re-encode stability of the parser on every string up to MaxLen. *)
EXTENDS PtArgs, Json
CONSTANTS MaxLen,      \* strings up to this many symbols
          MaxWord      \* keys / values up to this many symbols
VARIABLES cur, res, mode
vars == <<cur, res, mode>>
Keys == {w \in Words(Alphabet, MaxWord) : w # <<>>}
Vals == Words(Alphabet, MaxWord)
KVs1 == { <<<<k, v>>>> : k \in Keys, v \in Vals }
KVs2 == { <<<<k, v>>, <<k2, v2>>>> : k \in {<<"c">>, <<"s">>}, v \in {<<>>, <<"e">>, <<"b">>}, k2 \in {<<"c">>, <<"d", "b">>}, v2 \in {<<"s">>, <<"c", "e">>} }
Init == cur = <<>> /\ res = [ok |-> TRUE, kv |-> <<>>] /\ mode = "init"
TryString == mode = "init" /\ \E s \in Words(Alphabet, MaxLen) : cur' = s /\ res' = Parse(s) /\ mode' = "string"
TryKVs == mode = "init" /\ \E kvs \in KVs1 \cup KVs2 : cur' = kvs /\ res' = Parse(Encode(kvs)) /\ mode' = "kvs"
Next == TryString \/ TryKVs
Spec == Init /\ [][Next]_vars
\* the encoding round-trips for all keys and values
RoundTrip == mode = "kvs" => (res.ok /\ res.kv = cur)
\* whatever the parser accepts, re-encoding and re-parsing it yields the same arguments (nothing is silently altered)
Stable == (mode = "string" /\ res.ok) => Parse(Encode(res.kv)) = res
\* accepted arguments never have an empty key
NoEmptyKey == (mode = "string" /\ res.ok) => \A i \in 1..Len(res.kv) : res.kv[i][1] # <<>>
\* generation: every string / kv list with the model's verdict
RECURSIVE Flat(_)
Flat(w) == IF w = <<>> THEN "" ELSE Head(w) \o Flat(Tail(w))
KVJson(r) == [i \in 1..Len(r) |-> <<Flat(r[i][1]), Flat(r[i][2])>>]
EmitCase == (mode = "string" => PrintT(<<"STR", Len(cur), ToJson([s |-> Flat(cur), ok |-> res.ok, kv |-> KVJson(res.kv)])>>))
            /\ (mode = "kvs" => PrintT(<<"KVS", Len(cur), ToJson([kv |-> KVJson(cur), s |-> Flat(Encode(cur))])>>))
=============================================================================
