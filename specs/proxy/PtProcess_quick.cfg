SPECIFICATION Spec
CONSTANTS
    EnvSet <- SmallEnvs
    ProxySyntaxSilent = FALSE
    MaxConns = 2
    MaxEnv = 3
INVARIANTS ErrorIsLast DoneClosesList EachMethodAnswered RunsOnlyIfLaunched
PROPERTIES HardStops GracefulStops NoSpontaneousExit
CHECK_DEADLOCK FALSE
