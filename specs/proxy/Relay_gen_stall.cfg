SPECIFICATION Spec
CONSTANTS
    Stalls = TRUE
    ClosesSource = TRUE
    MaxUnits = 2
    MaxEnv = 4
INVARIANTS EmitScript
CHECK_DEADLOCK FALSE
