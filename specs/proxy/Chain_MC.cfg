SPECIFICATION Spec
CONSTANTS
    MaxUnits = 2
    MaxEnv = 4
INVARIANTS EndToEndPrefix GracefulComplete NoSpuriousClose NeverWedged
PROPERTIES TeardownPropagates
VIEW View
CHECK_DEADLOCK FALSE
