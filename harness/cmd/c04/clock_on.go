//go:build verifclock

package main

import "time"

// shiftClock: this binary was built with the patched time.go (vlib/core.py: patched_time_go)
func shiftClock(sec int64) bool {
	time.VerifShiftClock(sec)
	return true
}
