SPECIFICATION Spec
CONSTANTS Cap = 102400
          TTL = 100
INVARIANTS Inv Show
CHECK_DEADLOCK FALSE
