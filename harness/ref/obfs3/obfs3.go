// Package refobfs3 is an independent reference implementation of the obfs3
// obfuscation protocol and of the UniformDH key exchange (Tor obfsproxy,
// obfs3-protocol-spec.txt), written from the specification for use as a test
// peer and wire-format oracle.  It does not import the implementation under
// test.
//
// Protocol summary:
//
//	HMAC(k, m) = HMAC-SHA256 with key k
//	MAX_PADDING = 8194, KEYLEN = 16
//
//	both sides send:  PUB_KEY(192) | WR(PADLEN),  PADLEN in [0, MAX_PADDING/2]
//
//	INIT_SECRET = HMAC(SHARED_SECRET, "Initiator obfuscated data")
//	RESP_SECRET = HMAC(SHARED_SECRET, "Responder obfuscated data")
//	INIT_KEY = INIT_SECRET[:16]  INIT_COUNTER = INIT_SECRET[16:]
//	RESP_KEY = RESP_SECRET[:16]  RESP_COUNTER = RESP_SECRET[16:]
//
//	before its first data each side sends
//	    WR(PADLEN2) | HMAC(SHARED_SECRET, "Initiator magic" / "Responder magic")
//	with PADLEN2 in [0, MAX_PADDING/2], followed by E(KEY, data) (AES-128-CTR).
//
//	The receiver scans what follows the peer's public key for the peer's magic;
//	if MAX_PADDING + 32 bytes went by without it, it closes the connection.
package refobfs3

import (
	"bytes"
	"crypto/aes"
	"crypto/cipher"
	"crypto/hmac"
	crand "crypto/rand"
	"crypto/sha256"
	"errors"
	"fmt"
	"io"
	"math/big"
)

// Protocol constants.
const (
	MaxPadding = 8194
	MagicLen   = sha256.Size
	AESKeyLen  = 16

	InitiatorKdfString   = "Initiator obfuscated data"
	ResponderKdfString   = "Responder obfuscated data"
	InitiatorMagicString = "Initiator magic"
	ResponderMagicString = "Responder magic"
)

// Errors.
var (
	// ErrNoMagic: the peer's magic value is not within the MaxPadding+32
	// bytes that follow its public key.
	ErrNoMagic = errors.New("refobfs3: peer magic not found within MAX_PADDING")
	// ErrWriteOrder: Write before WriteFirst, or WriteFirst twice.
	ErrWriteOrder = errors.New("refobfs3: WriteFirst must be called exactly once, before Write")
)

// Keys is everything that is derived from the shared secret.
type Keys struct {
	InitSecret, RespSecret [32]byte // key = [:16], initial counter block = [16:]
	InitMagic, RespMagic   [32]byte
}

func hm(key []byte, msg string) (out [32]byte) {
	h := hmac.New(sha256.New, key)
	h.Write([]byte(msg))
	h.Sum(out[:0])
	return out
}

// DeriveKeys computes the session secrets and magic values.
func DeriveKeys(shared []byte) Keys {
	return Keys{
		InitSecret: hm(shared, InitiatorKdfString),
		RespSecret: hm(shared, ResponderKdfString),
		InitMagic:  hm(shared, InitiatorMagicString),
		RespMagic:  hm(shared, ResponderMagicString),
	}
}

func newCTR(secret [32]byte) cipher.Stream {
	blk, err := aes.NewCipher(secret[:AESKeyLen])
	if err != nil {
		panic(err)
	}
	return cipher.NewCTR(blk, secret[AESKeyLen:])
}

// Conn is one end of an obfs3 session over an io.ReadWriter.
type Conn struct {
	rw   io.ReadWriter
	rand io.Reader
	rx   cipher.Stream
	tx   cipher.Stream

	rxBuf      []byte
	magicFound bool
	firstSent  bool

	// Initiator is the role of this end.
	Initiator bool
	// Priv is this end's private key, Pub / PeerPub the keys as sent on the
	// wire, Flipped whether Pub is p - g^Priv.
	Priv    *big.Int
	Flipped bool
	Pub     [KeyLen]byte
	PeerPub [KeyLen]byte
	// Shared is the 192 byte UniformDH shared secret.
	Shared []byte
	// Keys are the derived secrets; TxMagic is what this end sends, RxMagic
	// what it scans for.
	Keys             Keys
	TxMagic, RxMagic [32]byte
	// PeerPadSeen is the number of bytes that preceded the peer's magic
	// (the peer's PADLEN + PADLEN2); valid once Read has found the magic,
	// -1 before.
	PeerPadSeen int
}

// Client runs the initiator's key exchange over rw: it sends PUB | pad1
// random bytes (one Write; pad1 < 0 means uniformly random in
// [0, MaxPadding/2]), reads the peer's 192 byte public key and derives the
// keys.  rand nil means crypto/rand.
func Client(rw io.ReadWriter, rand io.Reader, pad1 int) (*Conn, error) {
	return handshake(rw, rand, pad1, true)
}

// Server runs the responder's key exchange over rw.
func Server(rw io.ReadWriter, rand io.Reader, pad1 int) (*Conn, error) {
	return handshake(rw, rand, pad1, false)
}

func randPad(rand io.Reader) (int, error) {
	n, err := crand.Int(rand, big.NewInt(MaxPadding/2+1))
	if err != nil {
		return 0, err
	}
	return int(n.Int64()), nil
}

func handshake(rw io.ReadWriter, rand io.Reader, pad1 int, initiator bool) (*Conn, error) {
	if rand == nil {
		rand = crand.Reader
	}
	c := &Conn{rw: rw, rand: rand, Initiator: initiator, PeerPadSeen: -1}

	var raw [KeyLen + 1]byte // private key material and the X / p-X coin
	if _, err := io.ReadFull(rand, raw[:]); err != nil {
		return nil, err
	}
	c.Priv = PrivateFromBytes(raw[:KeyLen])
	c.Flipped = raw[KeyLen]&1 == 1
	c.Pub = UniformDHPublic(c.Priv, c.Flipped)

	if pad1 < 0 {
		var err error
		if pad1, err = randPad(rand); err != nil {
			return nil, err
		}
	}
	msg := make([]byte, KeyLen+pad1)
	copy(msg, c.Pub[:])
	if _, err := io.ReadFull(rand, msg[KeyLen:]); err != nil {
		return nil, err
	}
	if _, err := rw.Write(msg); err != nil {
		return nil, err
	}

	if _, err := io.ReadFull(rw, c.PeerPub[:]); err != nil {
		return nil, fmt.Errorf("refobfs3: reading peer public key: %w", err)
	}
	sh := UniformDHShared(c.Priv, c.PeerPub)
	c.Shared = sh[:]
	c.Keys = DeriveKeys(c.Shared)
	if initiator {
		c.tx, c.rx = newCTR(c.Keys.InitSecret), newCTR(c.Keys.RespSecret)
		c.TxMagic, c.RxMagic = c.Keys.InitMagic, c.Keys.RespMagic
	} else {
		c.tx, c.rx = newCTR(c.Keys.RespSecret), newCTR(c.Keys.InitSecret)
		c.TxMagic, c.RxMagic = c.Keys.RespMagic, c.Keys.InitMagic
	}
	return c, nil
}

// WriteFirst sends pad2 random bytes | magic | E(data) in ONE Write on the
// underlying stream (pad2 < 0 means uniformly random in [0, MaxPadding/2]).
// It must be called exactly once, before any Write.
func (c *Conn) WriteFirst(pad2 int, data []byte) error {
	if c.firstSent {
		return ErrWriteOrder
	}
	if pad2 < 0 {
		var err error
		if pad2, err = randPad(c.rand); err != nil {
			return err
		}
	}
	msg := make([]byte, pad2+MagicLen+len(data))
	if _, err := io.ReadFull(c.rand, msg[:pad2]); err != nil {
		return err
	}
	copy(msg[pad2:], c.TxMagic[:])
	c.tx.XORKeyStream(msg[pad2+MagicLen:], data)
	c.firstSent = true
	_, err := c.rw.Write(msg)
	return err
}

// Write sends encrypted data; WriteFirst must have been called.
func (c *Conn) Write(data []byte) (int, error) {
	if !c.firstSent {
		return 0, ErrWriteOrder
	}
	ct := make([]byte, len(data))
	c.tx.XORKeyStream(ct, data)
	n, err := c.rw.Write(ct)
	if err == nil && n != len(ct) {
		err = io.ErrShortWrite
	}
	return n, err
}

// WriteRaw puts b on the wire as is (for malformed peers).  It does not
// count as WriteFirst.
func (c *Conn) WriteRaw(b []byte) error {
	_, err := c.rw.Write(b)
	return err
}

// MarkFirstSent tells the Conn that the padding and magic went out by other
// means (WriteRaw), so that Write may be used.
func (c *Conn) MarkFirstSent() { c.firstSent = true }

// findMagic consumes the peer's padding and magic.  Exactly the first
// MaxPadding+MagicLen bytes after the public key are examined, so the magic
// is accepted iff at most MaxPadding bytes precede it.
func (c *Conn) findMagic() error {
	const window = MaxPadding + MagicLen
	for {
		if pos := bytes.Index(c.rxBuf, c.RxMagic[:]); pos >= 0 {
			if pos > MaxPadding {
				return ErrNoMagic
			}
			c.PeerPadSeen = pos
			c.rxBuf = c.rxBuf[pos+MagicLen:]
			c.magicFound = true
			return nil
		}
		if len(c.rxBuf) >= window {
			return ErrNoMagic
		}
		tmp := make([]byte, window-len(c.rxBuf))
		n, err := c.rw.Read(tmp)
		c.rxBuf = append(c.rxBuf, tmp[:n]...)
		if err != nil && n == 0 {
			return err
		}
	}
}

// Read scans for the peer's magic first (ErrNoMagic if more than MaxPadding
// bytes precede it), then returns decrypted application data.
func (c *Conn) Read(b []byte) (int, error) {
	if !c.magicFound {
		if err := c.findMagic(); err != nil {
			return 0, err
		}
	}
	if len(b) == 0 {
		return 0, nil
	}
	if len(c.rxBuf) > 0 {
		n := copy(b, c.rxBuf)
		c.rx.XORKeyStream(b[:n], c.rxBuf[:n])
		c.rxBuf = c.rxBuf[n:]
		return n, nil
	}
	n, err := c.rw.Read(b)
	if n > 0 {
		c.rx.XORKeyStream(b[:n], b[:n])
	}
	return n, err
}
