//go:build verif

package obfs4

import (
	"bytes"
	"encoding/binary"
	"fmt"

	"gitlab.com/yawning/obfs4.git/transports/obfs4/framing"
)

// VerifPadder drives the real padBurst: a connection with a live encoder and a
// matching decoder that recovers the frame boundaries of what padBurst appended.
type VerifPadder struct {
	conn *obfs4Conn
	dec  *framing.Decoder
}

func NewVerifPadder(key []byte) *VerifPadder {
	c := &obfs4Conn{}
	c.encoder = framing.NewEncoder(key)
	return &VerifPadder{conn: c, dec: framing.NewDecoder(key)}
}

// Pad runs padBurst on a burst that already holds `have` bytes and returns the
// lengths of the frames it appended; padOnly reports that every appended frame
// is a payload-type packet with zero payload bytes (pure padding).
func (p *VerifPadder) Pad(have, target int) (frames []int, padOnly bool, err error) {
	burst := bytes.NewBuffer(make([]byte, have, have+3*framing.MaximumSegmentLength))
	defer func() {
		if r := recover(); r != nil {
			err = fmt.Errorf("panic: %v", r)
		}
	}()
	if err = p.conn.padBurst(burst, target); err != nil {
		return nil, false, err
	}
	rest := bytes.NewBuffer(burst.Bytes()[have:])
	padOnly = true
	var decoded [framing.MaximumFramePayloadLength]byte
	for rest.Len() > 0 {
		before := rest.Len()
		n, derr := p.dec.Decode(decoded[:], rest)
		if derr != nil {
			return frames, false, derr
		}
		frames = append(frames, before-rest.Len())
		if n < packetOverhead || decoded[0] != packetTypePayload || binary.BigEndian.Uint16(decoded[1:3]) != 0 {
			padOnly = false
		}
	}
	return frames, padOnly, nil
}
