---------------------------- MODULE PtProcessTrace ----------------------------
(* Trace validation for PtProcess: the REAL obfs4proxy binary launched with an    *)
(* environment of the model, its stdout, and its life under connections, signals  *)
(* and the end of stdin.  Events (recorded by vlib/ptproc.py):                    *)
(*   Launch env                 the environment classes it was started with       *)
(*   Lines kinds complete       the line kinds it wrote (complete: the process    *)
(*        either exited by itself or finished the configuration; FALSE: it was    *)
(*        asked to stop while still configuring - any prefix is fine then)        *)
(*   Ask s                      SIGINT / SIGTERM sent, or stdin closed (STDIN)    *)
(*   Open / Close               a TCP connection to one of its listeners was      *)
(*        opened (a handler is now active) / closed                               *)
(*   Greet listeners answered   a SOCKS5 greeting was sent to every announced     *)
(*        client listener; how many answered it                                    *)
(*   Alive / Exited             what the process did within the settle time       *)
EXTENDS PtProcess
VARIABLE l
tvars == <<env, phase, out, conns, asked, ints, accepting, nenv, l>>
Trace == ndJsonDeserialize("trace.ndjson")
Is(e) == l <= Len(Trace) /\ Trace[l].event = e
E0 == CHOOSE e \in Envs : TRUE
TInit == env = E0 /\ phase = "config" /\ out = <<>> /\ conns = 0 /\ asked = {} /\ ints = 0 /\ accepting = TRUE /\ nenv = 0 /\ l = 1 /\ TLCSet(1, 0)
TReset == Is("Reset") /\ l' = l + 1 /\ env' = E0 /\ phase' = "config" /\ out' = <<>> /\ conns' = 0 /\ asked' = {} /\ ints' = 0 /\ accepting' = TRUE /\ nenv' = 0
ToEnv(j) == [ver |-> j.ver, role |-> j.role, state |-> j.state, methods |-> j.methods, proxy |-> j.proxy, bind |-> j.bind,
             orport |-> j.orport, stdinclose |-> j.stdinclose]
TLaunch == /\ Is("Launch") /\ l' = l + 1 /\ ToEnv(Trace[l].env) \in Envs /\ env' = ToEnv(Trace[l].env)
           /\ UNCHANGED <<phase, out, conns, asked, ints, nenv, accepting>>
IsPrefix(a, b) == Len(a) <= Len(b) /\ \A i \in 1..Len(a) : a[i] = b[i]
TLines == /\ Is("Lines") /\ l' = l + 1
          /\ LET got == Trace[l].kinds  want == Expected(env).lines IN
               IF Trace[l].complete THEN got = want ELSE IsPrefix(got, want)
          /\ out' = Trace[l].kinds /\ phase' = "running"
          /\ UNCHANGED <<env, conns, asked, ints, nenv, accepting>>
TAsk == /\ Is("Ask") /\ l' = l + 1 /\ asked' = asked \cup {Trace[l].s} /\ ints' = (IF Trace[l].s = "INT" THEN ints + 1 ELSE ints)
        /\ UNCHANGED <<env, phase, out, conns, nenv, accepting>>
TOpen == Is("Open") /\ l' = l + 1 /\ conns' = conns + 1 /\ UNCHANGED <<env, phase, out, asked, ints, nenv, accepting>>
TClose == Is("Close") /\ l' = l + 1 /\ conns > 0 /\ conns' = conns - 1 /\ UNCHANGED <<env, phase, out, asked, ints, nenv, accepting>>
\* what the statement demands of the process at this point
MustExit == \/ ~Expected(env).running
            \/ asked \cap Hard # {}
            \/ (ints >= 1 /\ conns = 0)
            \/ ints >= 2                                    \* a second SIGINT ends a graceful shutdown that is still waiting
TAlive == Is("Alive") /\ l' = l + 1 /\ ~MustExit /\ UNCHANGED <<env, phase, out, conns, asked, ints, nenv, accepting>>
TExited == Is("Exited") /\ l' = l + 1 /\ MustExit /\ UNCHANGED <<env, phase, out, conns, asked, ints, nenv, accepting>>
\* a flood of connections under a small descriptor limit came and went; then one more connection is attempted
TFlood == Is("Flood") /\ l' = l + 1 /\ accepting' = (accepting /\ AcceptLoopSurvives) /\ UNCHANGED <<env, phase, out, conns, asked, ints, nenv>>
TProbe == Is("Probe") /\ l' = l + 1 /\ Trace[l].accepted = accepting /\ UNCHANGED <<env, phase, out, conns, asked, ints, accepting, nenv>>
\* every announced client listener is SERVED, not merely bound (the kernel completes connects to a listener nobody accepts on):
\* a SOCKS5 greeting is answered by each of them
TGreet == Is("Greet") /\ l' = l + 1 /\ (accepting => Trace[l].answered = Trace[l].listeners)
          /\ UNCHANGED <<env, phase, out, conns, asked, ints, accepting, nenv>>
TNext == TGreet \/ TFlood \/ TProbe \/ TReset \/ TLaunch \/ TLines \/ TAsk \/ TOpen \/ TClose \/ TAlive \/ TExited
TraceSpec == TInit /\ [][TNext]_tvars
HW == TLCSet(1, IF l - 1 > TLCGet(1) THEN l - 1 ELSE TLCGet(1))
TraceAccepted == IF TLCGet(1) = Len(Trace) THEN TRUE ELSE PrintT(<<"REJECTED_AFTER", TLCGet(1)>>) /\ FALSE
=============================================================================
