SPECIFICATION Spec
CONSTANTS
    EnvSet <- Envs
    ProxySyntaxSilent = TRUE
    MaxConns = 0
    MaxEnv = 0
INVARIANTS EmitEnv
CHECK_DEADLOCK FALSE
