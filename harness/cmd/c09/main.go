// c09: conformance driver for obfs4 traffic shaping (property C09).
//
//	c09 exec <scenarios.jsonl> <trace.ndjson>
//	c09 findseeds <kind> <count> <startCounter> <biased>    (kind: zero | single | zeroonly | any)
//
// Scenario kinds:
//
//	pad      run the REAL padBurst for every tail 0..1447 and every target in the given set; the
//	         results are run-length compressed per tail into intervals of identical shape
//	session  a real obfs4 client/server pair (public API) with a given server DRBG seed, IAT modes
//	         and bias; every application Write is recorded with the sizes of the network writes it made
package main

import (
	"bufio"
	"crypto/sha256"
	"encoding/hex"
	"encoding/json"
	"flag"
	"fmt"
	"net"
	"os"
	"sync"
	"time"

	pt "gitlab.torproject.org/tpo/anti-censorship/pluggable-transports/goptlib"

	"gitlab.com/yawning/obfs4.git/common/drbg"
	"gitlab.com/yawning/obfs4.git/common/probdist"
	"gitlab.com/yawning/obfs4.git/transports/obfs4"
	"verif.local/harness/o4"
	ref "verif.local/harness/ref/obfs4"
	"verif.local/harness/vt"
	"verif.local/harness/wire"
)

type wr struct {
	Side string `json:"side"` // c | s
	N    int    `json:"n"`
}

type scenario struct {
	Coalesce bool   `json:"coalesce"`
	LateSeed bool   `json:"lateseed"` // the segment that completes the handshake ends INSIDE the inline seed frame; the client writes before the rest arrives
	ID       string `json:"id"`
	Kind     string `json:"kind"`
	Targets  []int  `json:"targets"`
	Seed     string `json:"seed"`
	Biased   bool   `json:"biased"`
	SMode    int    `json:"smode"`
	CMode    int    `json:"cmode"`
	Writes   []wr   `json:"writes"`
	StateDir string `json:"statedir"`
}

var w *vt.Writer

func seedFromCounter(i int) *drbg.Seed {
	h := sha256.Sum256([]byte(fmt.Sprintf("verif-c09-seed-%d", i)))
	s, err := drbg.SeedFromBytes(h[:drbg.SeedLength])
	if err != nil {
		panic(err)
	}
	return s
}

func main() {
	if len(os.Args) >= 6 && os.Args[1] == "findseeds" {
		var count, start int
		fmt.Sscan(os.Args[3], &count)
		fmt.Sscan(os.Args[4], &start)
		biased := os.Args[5] == "true"
		found := 0
		for i := start; found < count && i < start+50000000; i++ {
			s := seedFromCounter(i)
			d := probdist.New(s, 0, 1448, biased)
			tab, _, _, _ := d.VerifTable()
			has0 := false
			for _, v := range tab {
				if v == 0 {
					has0 = true
				}
			}
			ok := false
			switch os.Args[2] {
			case "zero":
				ok = has0 && len(tab) > 1
			case "single":
				ok = len(tab) == 1
			case "zerosmall": // contains 0 and few other values: 0 is drawn often
				ok = has0 && len(tab) > 1 && len(tab) <= 6
			case "zeroonly":
				ok = has0 && len(tab) == 1
			case "any":
				ok = true
			}
			if ok {
				fmt.Printf("%s %d %d %d\n", s.Hex(), len(tab), i, tab[0])
				found++
			}
		}
		return
	}
	if len(os.Args) != 4 || os.Args[1] != "exec" {
		fmt.Fprintln(os.Stderr, "usage: c09 exec <scenarios.jsonl> <trace.ndjson>")
		os.Exit(2)
	}
	in, err := os.Open(os.Args[2])
	if err != nil {
		panic(err)
	}
	w = vt.MustCreate(os.Args[3])
	sc := bufio.NewScanner(in)
	sc.Buffer(make([]byte, 1<<20), 1<<26)
	for sc.Scan() {
		var s scenario
		if err := json.Unmarshal(sc.Bytes(), &s); err != nil {
			panic(err)
		}
		var raw interface{}
		json.Unmarshal(sc.Bytes(), &raw)
		w.Begin(s.ID, raw)
		switch s.Kind {
		case "pad":
			runPad(&s)
		case "session":
			runSession(&s)
		case "seedinject":
			runSeedInject(&s)
		}
	}
	if err := w.Close(); err != nil {
		panic(err)
	}
}

// ---- padBurst over all pairs ----

type shape struct {
	n, d1, d2 int
	padOnly   bool
	err       string
}

func runPad(s *scenario) {
	key := make([]byte, 72)
	for i := range key {
		key[i] = byte(i*7 + 3)
	}
	p := obfs4.NewVerifPadder(key)
	for tail := 0; tail < 1448; tail++ {
		// the burst may hold any number of whole segments before the tail
		have := tail
		if tail%3 == 1 {
			have = tail + 1448
		}
		var cur shape
		lo, prev := -1, -2
		flush := func(hi int) {
			if lo < 0 {
				return
			}
			ev := vt.Ev{"event": "Pad", "tail": tail, "lo": lo, "hi": hi, "n": cur.n, "d1": cur.d1, "d2": cur.d2, "padonly": cur.padOnly}
			if cur.err != "" {
				ev["event"] = "PadError"
				ev["err"] = cur.err
			}
			w.Emit(ev)
		}
		for _, t := range s.Targets {
			frames, padOnly, err := p.Pad(have, t)
			var sh shape
			sh.padOnly = padOnly
			sh.n = len(frames)
			if err != nil {
				sh.err = err.Error()
				// the encoder/decoder pair may be out of step after an error: start afresh
				p = obfs4.NewVerifPadder(key)
			}
			if len(frames) >= 1 {
				sh.d1 = frames[0] - t
			}
			if len(frames) >= 2 {
				sh.d2 = frames[1] - t
			}
			if len(frames) > 2 {
				sh.err = fmt.Sprintf("%d frames", len(frames))
			}
			if lo >= 0 && sh == cur && t == prev+1 {
				prev = t
				continue
			}
			flush(prev)
			cur, lo, prev = sh, t, t
		}
		flush(prev)
	}
}

// ---- sessions ----

type endpoint struct {
	conn   net.Conn
	raw    *wire.Conn
	cid    int
	mu     sync.Mutex
	pieces []int
}

func runSession(s *scenario) {
	if err := flag.Set("obfs4-distBias", fmt.Sprint(s.Biased)); err != nil {
		panic(err)
	}
	dir, err := os.MkdirTemp("", "c09-state-")
	if err != nil {
		panic(err)
	}
	defer os.RemoveAll(dir)
	args := pt.Args{}
	args.Add("node-id", "0f1e2d3c4b5a69788796a5b4c3d2e1f001234567")
	args.Add("private-key", "a0a1a2a3a4a5a6a7a8a9aaabacadaeafb0b1b2b3b4b5b6b7b8b9babbbcbdbebf")
	args.Add("drbg-seed", s.Seed)
	args.Add("iat-mode", fmt.Sprint(s.SMode))
	t := &obfs4.Transport{}
	sf, err := t.ServerFactory(dir, &args)
	if err != nil {
		panic(err)
	}
	cf, _ := t.ClientFactory("")
	cert, _ := sf.Args().Get("cert")
	cargs, err := cf.ParseArgs(&pt.Args{"cert": {cert}, "iat-mode": {fmt.Sprint(s.CMode)}})
	if err != nil {
		panic(err)
	}
	// Coalesce: the bridge's application writes before the client has seen the response - the handshake response, the
	// inline PRNG-seed frame and the first data frame(s) reach the client in ONE segment
	manual := s.Coalesce || s.LateSeed
	l := wire.NewLink(!manual, 0)
	stopPump := make(chan struct{})
	defer close(stopPump)
	pump := func(from, to *wire.Conn) {
		for {
			select {
			case <-stopPump:
				return
			default:
			}
			if from.WaitOut(1, 2*time.Millisecond) == nil {
				if b := from.Take(); len(b) > 0 {
					to.Deliver(b)
				}
			}
		}
	}
	if manual {
		go pump(l.A, l.B)
	}
	srv, cli := &endpoint{raw: l.B, cid: 1}, &endpoint{raw: l.A, cid: 2}
	l.Hook = func(c *wire.Conn, what string, data []byte) {
		if what != "write" || len(data) == 0 {
			return
		}
		ep := srv
		if c == l.A {
			ep = cli
		}
		ep.mu.Lock()
		ep.pieces = append(ep.pieces, len(data))
		ep.mu.Unlock()
	}
	type res struct {
		c   net.Conn
		err error
	}
	sch := make(chan res, 1)
	go func() {
		c, err := sf.WrapConn(l.B)
		sch <- res{c, err}
	}()
	cch := make(chan res, 1)
	go func() {
		c, err := cf.Dial("tcp", "192.0.2.1:443", func(string, string) (net.Conn, error) { return l.A, nil }, cargs)
		cch <- res{c, err}
	}()
	sr := <-sch
	if sr.err != nil {
		w.Emit(vt.Ev{"event": "DriverDead", "why": "wrap: " + sr.err.Error()})
		return
	}
	srv.conn = sr.c
	stab, smode, _ := obfs4.VerifLenTable(srv.conn)
	w.Emit(vt.Ev{"event": "Conn", "cid": 1, "side": "s", "mode": smode, "table": stab})
	if s.Coalesce {
		// the bridge speaks first; only then is everything it has written so far released, in one piece
		for _, n := range []int{100, 1427} {
			if !doWrite(srv, n) {
				return
			}
		}
		l.A.Deliver(l.B.Take())
		go pump(l.B, l.A)
	}
	var seedTail []byte
	if s.LateSeed {
		// response | seed frame (45 bytes): everything but the last 10 bytes now, the rest after the client has spoken
		first := l.B.Take()
		if len(first) < 100 {
			w.Emit(vt.Ev{"event": "DriverDead", "why": "server's first flight too short"})
			return
		}
		l.A.Deliver(first[:len(first)-10])
		seedTail = first[len(first)-10:]
	}
	cr := <-cch
	if cr.err != nil {
		w.Emit(vt.Ev{"event": "DriverDead", "why": "dial: " + cr.err.Error()})
		return
	}
	cc := cr.c
	cli.conn = cc
	ctab, cmode, _ := obfs4.VerifLenTable(cli.conn)
	w.Emit(vt.Ev{"event": "Conn", "cid": 2, "side": "c", "mode": cmode, "table": ctab})
	// readers drain application data so that nothing ever blocks
	for _, ep := range []*endpoint{srv, cli} {
		go func(ep *endpoint) {
			buf := make([]byte, 65536)
			for {
				if _, err := ep.conn.Read(buf); err != nil {
					return
				}
			}
		}(ep)
	}
	adopted := false
	if s.Coalesce {
		// the seed frame was in the segment that completed the handshake: the client holds the bridge's table NOW, whatever
		// frames followed the seed frame in that segment
		w.Emit(vt.Ev{"event": "Adopt", "cid": 2, "equal": equalInts(ctab, stab)})
		adopted = true
	}
	if s.LateSeed {
		// the client speaks first, with the table it has (its own); then the rest of the seed frame arrives and from
		// there on every burst follows the bridge's table - whatever the client sampled or cached before
		if equalInts(ctab, stab) {
			w.Emit(vt.Ev{"event": "DriverDead", "why": "the client holds the bridge's table before the seed frame is complete"})
			return
		}
		for _, n := range []int{100, 1427, 5, 3000} {
			if cmode == 2 && n > 1500 {
				continue
			}
			if !doWrite(cli, n) {
				return
			}
		}
		l.A.Deliver(seedTail)
		go pump(l.B, l.A)
		deadline := time.Now().Add(10 * time.Second)
		for {
			c2, _, _ := obfs4.VerifLenTable(cli.conn)
			if equalInts(c2, stab) || time.Now().After(deadline) {
				w.Emit(vt.Ev{"event": "Retable", "cid": 2, "side": "c", "mode": cmode, "table": c2})
				w.Emit(vt.Ev{"event": "Adopt", "cid": 2, "equal": equalInts(c2, stab)})
				break
			}
			time.Sleep(time.Millisecond)
		}
		adopted = true
	}
	for _, x := range s.Writes {
		ep := srv
		if x.Side == "c" {
			ep = cli
		}
		if x.Side == "c" && !adopted {
			// make sure the client has processed the server's seed frame: the server writes, the
			// client's reader consumes it (the seed frame precedes it in the stream)
			if !doWrite(srv, 1) {
				return
			}
			deadline := time.Now().Add(10 * time.Second)
			for {
				c2, _, _ := obfs4.VerifLenTable(cli.conn)
				if equalInts(c2, stab) || time.Now().After(deadline) {
					w.Emit(vt.Ev{"event": "Retable", "cid": 2, "side": "c", "mode": cmode, "table": c2})
					w.Emit(vt.Ev{"event": "Adopt", "cid": 2, "equal": equalInts(c2, stab)})
					break
				}
				time.Sleep(time.Millisecond)
			}
			adopted = true
		}
		n := x.N
		if tab, mode, _ := obfs4.VerifLenTable(ep.conn); mode == 2 {
			// keep the number of (sleeping) pieces of one paranoid write bounded: tiny tables make tiny writes
			sum, cnt := 0, 0
			for _, v := range tab {
				if v > 0 {
					sum += v
					cnt++
				}
			}
			if cnt > 0 && n > 300*(sum/cnt+1) {
				n = 300 * (sum/cnt + 1)
			}
		}
		if !doWrite(ep, n) {
			return
		}
	}
	cli.conn.Close()
	srv.conn.Close()
}

func equalInts(a, b []int) bool {
	if len(a) != len(b) {
		return false
	}
	for i := range a {
		if a[i] != b[i] {
			return false
		}
	}
	return true
}

// doWrite performs one application Write and logs it; false = the scenario cannot continue.
func doWrite(ep *endpoint, n int) bool {
	ep.mu.Lock()
	ep.pieces = nil
	ep.mu.Unlock()
	type wres struct {
		ret int
		err error
		pan interface{}
	}
	ch := make(chan wres, 1)
	go func() {
		var r wres
		defer func() {
			if p := recover(); p != nil {
				r.pan = p
			}
			ch <- r
		}()
		buf := make([]byte, n)
		for i := range buf {
			buf[i] = byte(i)
		}
		r.ret, r.err = ep.conn.Write(buf)
	}()
	// "blocked for good" is progress based, not a wall-clock limit on the whole Write: every piece of
	// an IAT write takes at most ~10 ms, so 6 s without a single network write while the (unbounded,
	// never blocking) wire would accept one means the loop spins without making progress.
	var r wres
	lastN, lastChange := -1, time.Now()
wait:
	for {
		select {
		case r = <-ch:
			break wait
		case <-time.After(50 * time.Millisecond):
			ep.mu.Lock()
			k := len(ep.pieces)
			ep.mu.Unlock()
			ep.mu.Lock()
			tot := 0
			for _, p := range ep.pieces {
				tot += p
			}
			ep.mu.Unlock()
			// "never returns" while still writing: a terminating Write puts its data, and per shortfall at most
			// one target plus a segment and a header of padding, on the wire; 40 such shortfalls in a row do not
			// happen with a seeded sampler, so this is a Write that only pads for ever.
			if tot > n+21*(n/1427+1)+40*1500 {
				w.Emit(vt.Ev{"event": "Hang", "cid": ep.cid, "n": n, "kind": "runaway", "pieces_so_far": k, "bytes_so_far": tot})
				w.Flush()
				return false
			}
			if k != lastN {
				lastN, lastChange = k, time.Now()
			} else if time.Since(lastChange) > 6*time.Second {
				w.Emit(vt.Ev{"event": "Hang", "cid": ep.cid, "n": n, "pieces_so_far": k})
				w.Flush()
				return false
			}
		}
	}
	{
		ep.mu.Lock()
		pieces := append([]int{}, ep.pieces...)
		ep.mu.Unlock()
		if r.pan != nil {
			w.Emit(vt.Ev{"event": "Panic", "cid": ep.cid, "n": n, "text": fmt.Sprint(r.pan)})
			return false
		}
		if r.err != nil {
			w.Emit(vt.Ev{"event": "WriteError", "cid": ep.cid, "n": n, "err": r.err.Error()})
			return false
		}
		w.Emit(vt.Ev{"event": "Write", "cid": ep.cid, "n": n, "pieces": pieces, "ret": r.ret})
		return true
	}
}

// runSeedInject: a (reference) client sends the BRIDGE a well-formed PRNG-seed packet.  The bridge's sizes must keep
// following ITS seeded distribution.
func runSeedInject(s *scenario) {
	b, err := o4.NewBridge(s.Seed, s.SMode, s.Biased)
	if err != nil {
		w.Emit(vt.Ev{"event": "DriverDead", "why": err.Error()})
		return
	}
	defer b.Close()
	l := wire.NewLink(true, 0)
	srv := &endpoint{raw: l.B, cid: 1}
	l.Hook = func(c *wire.Conn, what string, data []byte) {
		if what != "write" || len(data) == 0 || c != l.B {
			return
		}
		srv.mu.Lock()
		srv.pieces = append(srv.pieces, len(data))
		srv.mu.Unlock()
	}
	type res struct {
		c   net.Conn
		err error
	}
	sch := make(chan res, 1)
	go func() { c, err := b.SF.WrapConn(l.B); sch <- res{c, err} }()
	var rc *ref.Conn
	if _, err := b.RefClient(100, nil, nil, &rc)(l.A); err != nil {
		w.Emit(vt.Ev{"event": "DriverDead", "why": "reference client: " + err.Error()})
		return
	}
	sr := <-sch
	if sr.err != nil {
		w.Emit(vt.Ev{"event": "DriverDead", "why": "wrap: " + sr.err.Error()})
		return
	}
	srv.conn = sr.c
	stab, smode, _ := obfs4.VerifLenTable(srv.conn)
	w.Emit(vt.Ev{"event": "Conn", "cid": 1, "side": "s", "mode": smode, "table": stab})
	go func() { // the reference side drains what the server sends
		buf := make([]byte, 65536)
		for {
			if _, err := l.A.Read(buf); err != nil {
				return
			}
		}
	}()
	got := make(chan int, 16)
	go func() { // the server application reads
		buf := make([]byte, 4096)
		for {
			n, err := srv.conn.Read(buf)
			if n > 0 {
				got <- n
			}
			if err != nil {
				return
			}
		}
	}()
	for _, n := range []int{1, 1427, 100} {
		if !doWrite(srv, n) {
			return
		}
	}
	// the injection: a seed whose table differs, followed by payload so that the server's reader processes it
	other := seedFromCounter(int(s.SMode) + 4242)
	rc.WriteRawPacket(ref.PacketTypeSeed, other.Bytes()[:], 0)
	rc.WritePayload([]byte("ping"), 0)
	select {
	case <-got:
	case <-time.After(10 * time.Second):
		w.Emit(vt.Ev{"event": "DriverDead", "why": "the server did not read the payload behind the seed packet"})
		return
	}
	now, _, _ := obfs4.VerifLenTable(srv.conn)
	w.Emit(vt.Ev{"event": "Keep", "cid": 1, "equal": equalInts(now, stab)})
	for _, n := range s.Writes {
		if !doWrite(srv, n.N) {
			return
		}
	}
	srv.conn.Close()
	l.A.Close()
}

var _ = hex.EncodeToString
