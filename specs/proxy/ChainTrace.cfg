SPECIFICATION TraceSpec
CONSTRAINT HW
POSTCONDITION TraceAccepted
CHECK_DEADLOCK FALSE
