package refobfs4

import (
	"bytes"
	"crypto/sha256"
	"encoding/binary"
	"io"
	"math/big"
	"testing"

	"gitlab.com/yawning/obfs4.git/common/ntor"
)

// detRand is a deterministic byte stream (SHA-256 in counter mode).
type detRand struct {
	seed []byte
	ctr  uint64
	buf  []byte
}

func newDetRand(seed string) *detRand { return &detRand{seed: []byte(seed)} }

func (r *detRand) Read(p []byte) (int, error) {
	for len(r.buf) < len(p) {
		var c [8]byte
		binary.BigEndian.PutUint64(c[:], r.ctr)
		r.ctr++
		h := sha256.Sum256(append(append([]byte{}, r.seed...), c[:]...))
		r.buf = append(r.buf, h[:]...)
	}
	n := copy(p, r.buf)
	r.buf = r.buf[n:]
	return n, nil
}

var _ io.Reader = (*detRand)(nil)

func repoToPublic(repr [32]byte) [32]byte {
	r := ntor.Representative(repr)
	return *r.ToPublic().Bytes()
}

func leOf(x *big.Int) [32]byte { return feToLE(x) }

func TestElligatorDecodeAgreesWithRepo(t *testing.T) {
	var cases [][32]byte

	// Edge cases.
	p := feP
	add := func(x *big.Int) {
		// raw 256 bit little endian, NOT reduced mod p
		var out [32]byte
		be := x.Bytes()
		for i := range be {
			out[i] = be[len(be)-1-i]
		}
		cases = append(cases, out)
	}
	one := big.NewInt(1)
	add(big.NewInt(0))
	add(big.NewInt(1))
	add(big.NewInt(2))
	add(new(big.Int).Sub(p, one))                                     // p-1
	add(p)                                                            // p
	add(new(big.Int).Add(p, one))                                     // p+1
	add(new(big.Int).Rsh(new(big.Int).Sub(p, one), 1))                // (p-1)/2
	add(new(big.Int).Add(new(big.Int).Rsh(p, 1), one))                // (p+1)/2
	add(new(big.Int).Sub(new(big.Int).Lsh(one, 254), one))            // 2^254-1
	add(new(big.Int).Lsh(one, 254))                                   // 2^254
	add(new(big.Int).Sub(new(big.Int).Lsh(one, 255), one))            // 2^255-1
	add(new(big.Int).Lsh(one, 255))                                   // 2^255
	add(new(big.Int).Sub(new(big.Int).Lsh(one, 256), one))            // all FF
	add(new(big.Int).Sub(new(big.Int).Lsh(one, 253), one))            // 2^253-1
	add(feSqrtM1)                                                     // sqrt(-1)
	add(feA)                                                          // A
	add(new(big.Int).Sub(p, feA))                                     // -A
	add(new(big.Int).Sub(new(big.Int).Lsh(one, 254), big.NewInt(19))) // 2^254-19
	for i := 0; i < 32; i++ {                                         // single bytes set
		var c [32]byte
		c[i] = 0xff
		cases = append(cases, c)
		c[i] = 0x01
		cases = append(cases, c)
		c[i] = 0x80
		cases = append(cases, c)
	}
	// The four settings of the two ignored bits over one value.
	base := leOf(big.NewInt(123456789))
	for _, top := range []byte{0x00, 0x40, 0x80, 0xc0} {
		c := base
		c[31] |= top
		cases = append(cases, c)
	}

	rng := newDetRand("elligator-decode")
	for i := 0; i < 3000; i++ {
		var c [32]byte
		rng.Read(c[:])
		cases = append(cases, c)
	}

	for i, c := range cases {
		got, want := RepresentativeToPublic(c), repoToPublic(c)
		if got != want {
			t.Fatalf("case %d repr %x: ref %x repo %x", i, c, got, want)
		}
	}
	t.Logf("%d representatives agree", len(cases))

	// The two top bits are ignored.
	for i := 0; i < 50; i++ {
		var c [32]byte
		rng.Read(c[:])
		c[31] &= 0x3f
		want := RepresentativeToPublic(c)
		for _, top := range []byte{0x40, 0x80, 0xc0} {
			d := c
			d[31] |= top
			if RepresentativeToPublic(d) != want {
				t.Fatalf("top bits %02x change the result", top)
			}
		}
	}
}

func TestKeypairRepresentative(t *testing.T) {
	rng := newDetRand("keypairs")
	tops := map[byte]int{}
	for i := 0; i < 200; i++ {
		kp, err := NewKeypair(rng)
		if err != nil {
			t.Fatal(err)
		}
		if got := RepresentativeToPublic(kp.Representative); got != kp.Public {
			t.Fatalf("ref decode: %x != %x", got, kp.Public)
		}
		if got := repoToPublic(kp.Representative); got != kp.Public {
			t.Fatalf("repo decode: %x != %x", got, kp.Public)
		}
		pub, err := PublicFromPrivate(kp.Private)
		if err != nil || pub != kp.Public {
			t.Fatalf("public key mismatch")
		}
		tops[kp.Representative[31]&0xc0]++
		// Both pre-images and all tweak bits decode to the same key.
		for _, tw := range []byte{0x00, 0x01, 0x40, 0x81, 0xc0, 0xff} {
			r, ok := PublicToRepresentative(kp.Public, tw)
			if !ok {
				t.Fatalf("tweak %02x: no representative", tw)
			}
			if r[31]&0xc0 != tw&0xc0 {
				t.Fatalf("tweak %02x: top bits %02x", tw, r[31]&0xc0)
			}
			if RepresentativeToPublic(r) != kp.Public || repoToPublic(r) != kp.Public {
				t.Fatalf("tweak %02x: does not decode", tw)
			}
		}
		r0, _ := PublicToRepresentative(kp.Public, 0)
		r1, _ := PublicToRepresentative(kp.Public, 1)
		if r0 == r1 {
			t.Fatalf("the two pre-images coincide")
		}
	}
	if len(tops) != 4 {
		t.Fatalf("top bits not randomised: %v", tops)
	}

	// Determinism.
	a, _ := NewKeypair(newDetRand("same"))
	b, _ := NewKeypair(newDetRand("same"))
	if *a != *b {
		t.Fatal("NewKeypair is not deterministic in its rand")
	}

	// About half of the keys have no representative.
	rng = newDetRand("half")
	n := 0
	for i := 0; i < 400; i++ {
		var priv [32]byte
		rng.Read(priv[:])
		if _, ok := KeypairFromPrivate(priv, 0); ok {
			n++
		}
	}
	if n < 140 || n > 260 {
		t.Fatalf("%d of 400 keys have a representative", n)
	}
}

// Keys generated by the implementation under test (which do not clear the
// cofactor) are encodable by the reference encoder, to the same class of
// representatives.
func TestEncodeRepoKeys(t *testing.T) {
	for i := 0; i < 50; i++ {
		kp, err := ntor.NewKeypair(true)
		if err != nil {
			t.Fatal(err)
		}
		pub := *kp.Public().Bytes()
		repr := *kp.Representative().Bytes()
		if RepresentativeToPublic(repr) != pub {
			t.Fatalf("repo keypair: ref decode mismatch")
		}
		r0, ok0 := PublicToRepresentative(pub, repr[31]&0xc0)
		r1, ok1 := PublicToRepresentative(pub, repr[31]&0xc0|1)
		if !ok0 || !ok1 {
			t.Fatalf("repo public key not encodable")
		}
		if !bytes.Equal(r0[:], repr[:]) && !bytes.Equal(r1[:], repr[:]) {
			t.Fatalf("repo representative %x is neither %x nor %x", repr, r0, r1)
		}
	}
}
