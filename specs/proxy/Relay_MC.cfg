SPECIFICATION Spec
CONSTANTS
    Stalls = FALSE
    ClosesSource = TRUE
    MaxUnits = 3
    MaxEnv = 6
INVARIANTS ForwardedIsPrefix EarlierBytesFirst NoSpuriousClose ReturnedMeansClosed NeverWedged
PROPERTIES EndLeadsToReturn
VIEW View
CHECK_DEADLOCK FALSE
