SPECIFICATION Spec
CONSTANTS
    CPads = {77, 78, 4000, 8127, 8128}
    SPads = {0, 1, 4000, 8050, 8051}
    MaxFrames = 3
INVARIANTS PadRanges RequestFits ResponsePlusSeedFits CtrStartsAtOneAndSteps SeedFrameFirstUnpadded FrameLenBounded HourEcho
CHECK_DEADLOCK FALSE
