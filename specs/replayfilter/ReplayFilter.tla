--------------------------- MODULE ReplayFilter ---------------------------
(***************************************************************************)
(* common/replayfilter: a bounded, expiring test-and-set filter (C11).     *)
(*                                                                         *)
(* Abstract state: the FIFO of remembered values, oldest first, kept as a  *)
(* sequence of RUNS [lo, hi, t] = the consecutive value ids lo..hi, all    *)
(* first seen at instant t.  A single insert is a run of length 1; a bulk  *)
(* insert of n fresh values is one run.  The run representation lets the   *)
(* same module be checked exhaustively with tiny constants and validate    *)
(* traces of the real filter at its real capacity (102400 entries) with a  *)
(* state that stays a few records long.                                    *)
(*                                                                         *)
(* Two definitions of compaction are given:                                *)
(*   PropCompact  written from the property statement                      *)
(*   CodeCompact  transcribed from compactFilter() (loop from the front)   *)
(* and TLC checks they agree on every reachable state while the clock has  *)
(* not stepped backwards inside the remembered window (the one place where *)
(* the statement is silent, see Outcomes).                                 *)
(***************************************************************************)
EXTENDS Integers, Sequences, FiniteSets, TLC

CONSTANTS Cap,      \* capacity (102400 in the code)
          TTL       \* time-to-live in clock units (> 0)

VARIABLES runs,     \* Seq([lo, hi, t]), oldest first
          next,     \* next fresh value id (bulk inserts and "new" values draw from here)
          last      \* [v, now, res] of the last operation (observation only)

vars == <<runs, next, last>>

RunLen(r)  == r.hi - r.lo + 1
RECURSIVE Size(_)
Size(rs)   == IF rs = <<>> THEN 0 ELSE RunLen(Head(rs)) + Size(Tail(rs))
Has(rs, v) == \E i \in 1..Len(rs) : rs[i].lo <= v /\ v <= rs[i].hi
Newest(rs) == LET S == {rs[i].t : i \in 1..Len(rs)} IN CHOOSE m \in S : \A x \in S : x <= m

\* remove exactly one value, the eldest
DropOne(rs) == IF RunLen(Head(rs)) = 1 THEN Tail(rs)
               ELSE <<[Head(rs) EXCEPT !.lo = @ + 1]>> \o Tail(rs)

RECURSIVE PurgePrefix(_, _)
PurgePrefix(rs, now) == IF rs # <<>> /\ now - Head(rs).t >= TTL
                        THEN PurgePrefix(Tail(rs), now) ELSE rs

(* From the statement: a clock that is behind the eldest remembered value   *)
(* discards everything; values older than TTL are forgotten; when the       *)
(* filter is (still) full exactly the eldest value makes room.              *)
PropCompact(rs, now) ==
    IF rs = <<>> THEN rs
    ELSE IF now < Head(rs).t THEN <<>>
    ELSE LET p == PurgePrefix(rs, now) IN
         IF Size(p) >= Cap THEN DropOne(p) ELSE p

(* Transcription of compactFilter(): walk from the front; while not full:   *)
(* deltaT < 0 => reset, deltaT < ttl => stop; otherwise remove the eldest.  *)
RECURSIVE CodeCompact(_, _)
CodeCompact(rs, now) ==
    IF rs = <<>> THEN rs
    ELSE LET h == Head(rs) IN
         IF Size(rs) < Cap /\ now < h.t            THEN <<>>
         ELSE IF Size(rs) < Cap /\ now - h.t < TTL THEN rs
         ELSE IF Size(rs) >= Cap THEN CodeCompact(DropOne(rs), now)
         ELSE CodeCompact(Tail(rs), now)   \* a whole run shares t: expires at once

(* The clock stepped backwards, but not behind the eldest entry.  The       *)
(* statement ("discards everything when the clock jumps backwards") and     *)
(* the pinned code (keeps) differ here; the property-level machine allows   *)
(* both outcomes so that neither reading is flagged.                        *)
BackInsideWindow(rs, now) == rs # <<>> /\ now >= Head(rs).t /\ now < Newest(rs)

(* Once the clock HAS stepped backwards inside the window, entries are no    *)
(* longer held in order of age (a younger one can sit in front of an older  *)
(* one).  The statement speaks about a monotone clock and about jumps       *)
(* behind everything; for such a FIFO "purge what expired, then evict the   *)
(* eldest if full" and the code's "evict one if full, then purge from the   *)
(* front" differ (found by the thorough configuration, 5 operations).  The  *)
(* property-level machine allows either there.                              *)
Sorted(rs) == \A i, j \in 1..Len(rs) : i < j => rs[i].t <= rs[j].t
Outcomes(rs, now) ==
    IF BackInsideWindow(rs, now) THEN {CodeCompact(rs, now), <<>>}
    ELSE IF ~Sorted(rs) THEN {CodeCompact(rs, now), PropCompact(rs, now), <<>>}
    ELSE {PropCompact(rs, now)}

Insert(rs, v, now) ==
    IF rs # <<>> /\ rs[Len(rs)].t = now /\ rs[Len(rs)].hi + 1 = v
    THEN [rs EXCEPT ![Len(rs)].hi = v]          \* extend the newest run (canonical form)
    ELSE Append(rs, [lo |-> v, hi |-> v, t |-> now])

\* TestAndSet(v, now) with answer res ("seen before")
TestAndSet(v, now, res) ==
    \E c \in Outcomes(runs, now) :
        /\ res = Has(c, v)
        /\ runs' = IF res THEN c ELSE Insert(c, v, now)
        /\ next' = IF v >= next THEN v + 1 ELSE next
        /\ last' = [v |-> v, now |-> now, res |-> res]

\* n fresh values at one instant (n TestAndSet calls that all answer "new")
Bulk(n, now) ==
    /\ n >= 1 /\ Size(runs) + n <= Cap
    /\ (IF runs = <<>> THEN TRUE ELSE (now >= Newest(runs) /\ now - Head(runs).t < TTL))
    /\ runs' = Append(runs, [lo |-> next, hi |-> next + n - 1, t |-> now])
    /\ next' = next + n
    /\ last' = [v |-> next, now |-> now, res |-> FALSE]

Init == runs = <<>> /\ next = 0 /\ last = [v |-> -1, now |-> 0, res |-> FALSE]

---------------------------------------------------------------------------
\* Properties of the state (checked exhaustively in ReplayFilterMC and at every step of every trace)
Bounded     == Size(runs) <= Cap
WellFormed  == \A i \in 1..Len(runs) : runs[i].lo <= runs[i].hi
NoDup       == \A i, j \in 1..Len(runs) : i < j => (runs[i].hi < runs[j].lo \/ runs[j].hi < runs[i].lo)
=============================================================================
