SPECIFICATION Spec
CONSTANTS
    MaxTickets = 3
    MaxSteps = 6
INVARIANTS TicketAtMostOnce MemMatchesFileOrEmpty EmitHist
CHECK_DEADLOCK FALSE
