// c11: conformance driver for common/replayfilter (property C11).
//
//	c11 exec <scenarios.jsonl> <trace.ndjson>
//
// Executes scenarios on the real ReplayFilter and records what it answered
// and the projected state after every step.  Scenarios come from TLC (every
// edge of the bounded model, simulation behaviours) and from seeded
// generators in the orchestrator; the driver itself decides nothing.
package main

import (
	"bufio"
	"bytes"
	"encoding/binary"
	"encoding/json"
	"fmt"
	"math/rand"
	"os"
	"runtime"
	"sync"
	"sync/atomic"
	"time"

	"gitlab.com/yawning/obfs4.git/common/replayfilter"
	"verif.local/harness/vt"
)

type op struct {
	Op  string `json:"op"` // tas | bulk
	V   int    `json:"v"`
	N   int    `json:"n"`
	Now int    `json:"now"`
}

type scenario struct {
	ID     string `json:"id"`
	Kind   string `json:"kind"` // seq | conc
	TTL    int    `json:"ttl"`
	Ops    []op   `json:"ops"`
	Procs  int    `json:"procs"`
	Rounds int    `json:"rounds"`
	Vals   int    `json:"vals"`
	Seed   int64  `json:"seed"`
	Pre    []op   `json:"pre"`      // kind = gated: sequential operations first
	A      op     `json:"a"`        // ... then this call is HELD between hashing its value and taking the filter's lock
	B      []op   `json:"b"`        // ... while these run to completion
	Post   []op   `json:"post"`     // ... and these follow its return
	UnitMs int    `json:"unit_ms"`  // length of one model time unit (default 1000); 700 makes units and seconds incommensurable
	Phase  int    `json:"phase_ms"` // the model's time 0 is this far behind a full second
}

var base = time.Unix(1700000000, 0)

// model time -> wall time: units need not be whole seconds (a filter that rounds its timestamps must show)
var unit, phase = time.Second, time.Duration(0)

func setUnit(s *scenario) {
	unit, phase = time.Second, 0
	if s.UnitMs > 0 {
		unit = time.Duration(s.UnitMs) * time.Millisecond
	}
	phase = time.Duration(s.Phase) * time.Millisecond
}

func at(now int) time.Time { return base.Add(phase + time.Duration(now)*unit) }

func val(v int) []byte {
	var b [32]byte
	binary.BigEndian.PutUint64(b[0:8], uint64(v))
	copy(b[8:], "obfs4-verif-replay-value")
	return b[:]
}

func main() {
	if len(os.Args) != 4 || os.Args[1] != "exec" {
		fmt.Fprintln(os.Stderr, "usage: c11 exec <scenarios.jsonl> <trace.ndjson>")
		os.Exit(2)
	}
	in, err := os.Open(os.Args[2])
	if err != nil {
		panic(err)
	}
	w := vt.MustCreate(os.Args[3])
	sc := bufio.NewScanner(in)
	sc.Buffer(make([]byte, 1<<20), 1<<26)
	for sc.Scan() {
		var s scenario
		if err := json.Unmarshal(sc.Bytes(), &s); err != nil {
			panic(err)
		}
		var raw interface{}
		json.Unmarshal(sc.Bytes(), &raw)
		w.Begin(s.ID, raw)
		switch s.Kind {
		case "seq":
			runSeq(w, &s)
		case "conc":
			runConc(w, &s)
		case "gated":
			runGated(w, &s)
		case "stress":
			runStress(w, &s)
		default:
			panic("unknown scenario kind " + s.Kind)
		}
	}
	if err := w.Close(); err != nil {
		panic(err)
	}
}

func runSeq(w *vt.Writer, s *scenario) {
	setUnit(s)
	f, err := replayfilter.New(time.Duration(s.TTL) * unit)
	if err != nil {
		panic(err)
	}
	for _, o := range s.Ops {
		switch o.Op {
		case "tas":
			res := f.TestAndSet(at(o.Now), val(o.V))
			n, m, c := f.VerifState()
			w.Emit(vt.Ev{"event": "TAS", "v": o.V, "now": o.Now, "res": res, "size": n, "cons": c && n == m})
		case "bulk":
			// n fresh consecutive values at one instant; the spec's Bulk action demands every answer "new"
			allNew := true
			for i := 0; i < o.N; i++ {
				if f.TestAndSet(at(o.Now), val(o.V+i)) {
					allNew = false
				}
			}
			n, m, c := f.VerifState()
			if !allNew || !c || n != m {
				// not explainable as a Bulk: log it as something the spec has no action for
				w.Emit(vt.Ev{"event": "BulkNotAllNew", "n": o.N, "now": o.Now, "size": n})
			} else {
				w.Emit(vt.Ev{"event": "Bulk", "n": o.N, "now": o.Now, "size": n})
			}
		}
	}
}

// runConc: Procs goroutines submit overlapping values; all calls of a round carry the same
// timestamp (the clock is an argument of TestAndSet, concurrency is about the critical section).
func runConc(w *vt.Writer, s *scenario) {
	setUnit(s)
	f, err := replayfilter.New(time.Duration(s.TTL) * unit)
	if err != nil {
		panic(err)
	}
	rng := rand.New(rand.NewSource(s.Seed))
	now := 0
	for r := 0; r < s.Rounds; r++ {
		now += rng.Intn(3) // sometimes same instant, sometimes later (may expire older rounds)
		if rng.Intn(10) == 0 {
			now += s.TTL
		}
		vals := make([]int, s.Procs)
		for p := range vals {
			vals[p] = rng.Intn(s.Vals)
		}
		var wg sync.WaitGroup
		var called int32
		start := make(chan struct{})
		for p := 0; p < s.Procs; p++ {
			wg.Add(1)
			go func(p, v int) {
				defer wg.Done()
				<-start
				w.Emit(vt.Ev{"event": "Call", "p": p + 1, "v": v, "now": now})
				// all callers of the round are pending before any of them enters the filter
				atomic.AddInt32(&called, 1)
				for atomic.LoadInt32(&called) < int32(s.Procs) {
					runtime.Gosched()
				}
				res := f.TestAndSet(at(now), val(v))
				w.Emit(vt.Ev{"event": "Ret", "p": p + 1, "res": res})
			}(p, vals[p])
		}
		close(start)
		wg.Wait()
		n, m, c := f.VerifState()
		w.Emit(vt.Ev{"event": "Quiet", "size": n, "cons": c && n == m})
	}
}

// runGated: the interleaving the prelock hook exists for, with DIFFERENT timestamps: caller A has computed what it needs
// from its value and is about to take the lock when other callers go through the filter completely - among them ones whose
// clock reading lies before A's (the filter discards everything) or far behind it (everything has expired).
func runGated(w *vt.Writer, s *scenario) {
	setUnit(s)
	f, err := replayfilter.New(time.Duration(s.TTL) * unit)
	if err != nil {
		panic(err)
	}
	seq := func(o op) {
		res := f.TestAndSet(at(o.Now), val(o.V))
		n, m, c := f.VerifState()
		w.Emit(vt.Ev{"event": "TAS", "v": o.V, "now": o.Now, "res": res, "size": n, "cons": c && n == m})
	}
	for _, o := range s.Pre {
		seq(o)
	}
	var gmu sync.Mutex
	first := true
	parked, release := make(chan struct{}), make(chan struct{})
	av := val(s.A.V)
	replayfilter.VerifGate = func(point string, buf []byte) {
		if point != "replayfilter.prelock" || !bytes.Equal(buf, av) {
			return
		}
		gmu.Lock()
		mine := first
		first = false
		gmu.Unlock()
		if mine {
			close(parked)
			<-release
		}
	}
	defer func() { replayfilter.VerifGate = nil }()
	adone := make(chan bool, 1)
	w.Emit(vt.Ev{"event": "Call", "p": 1, "v": s.A.V, "now": s.A.Now})
	go func() { adone <- f.TestAndSet(at(s.A.Now), val(s.A.V)) }()
	select {
	case <-parked:
	case res := <-adone:
		// the code under test never came by the hook: nothing was held, the call is simply over
		w.Emit(vt.Ev{"event": "Ret", "p": 1, "res": res})
		adone = nil
	case <-time.After(10 * time.Second):
		w.Emit(vt.Ev{"event": "DriverDead", "why": "caller A neither reached the hook nor returned"})
		return
	}
	for _, o := range s.B {
		if o.V == s.A.V {
			gmu.Lock()
			first = false
			gmu.Unlock()
		}
		w.Emit(vt.Ev{"event": "Call", "p": 2, "v": o.V, "now": o.Now})
		bd := make(chan bool, 1)
		go func() { bd <- f.TestAndSet(at(o.Now), val(o.V)) }()
		select {
		case res := <-bd:
			w.Emit(vt.Ev{"event": "Ret", "p": 2, "res": res})
		case <-time.After(10 * time.Second):
			w.Emit(vt.Ev{"event": "DriverDead", "why": "a caller blocked while another was held in front of the lock"})
			close(release)
			return
		}
	}
	if adone != nil {
		close(release)
		select {
		case res := <-adone:
			w.Emit(vt.Ev{"event": "Ret", "p": 1, "res": res})
		case <-time.After(10 * time.Second):
			w.Emit(vt.Ev{"event": "DriverDead", "why": "caller A did not return"})
			return
		}
	}
	for _, o := range s.Post {
		seq(o)
	}
}

// runStress: in every round all Procs goroutines submit THE SAME value at the same instant,
// released together by a spin barrier; logged per round: how many were told "new".
func runStress(w *vt.Writer, s *scenario) {
	setUnit(s)
	f, err := replayfilter.New(time.Duration(s.TTL) * unit)
	if err != nil {
		panic(err)
	}
	rng := rand.New(rand.NewSource(s.Seed))
	P := s.Procs
	var round, done int32
	cur := struct {
		v, now int
	}{}
	res := make([]int32, P)
	var wg sync.WaitGroup
	for p := 0; p < P; p++ {
		wg.Add(1)
		go func(p int) {
			defer wg.Done()
			for r := int32(1); r <= int32(s.Rounds); r++ {
				for atomic.LoadInt32(&round) < r {
					// spin: keep all workers hot so that they enter the filter together
				}
				if f.TestAndSet(at(cur.now), val(cur.v)) {
					atomic.StoreInt32(&res[p], 1)
				} else {
					atomic.StoreInt32(&res[p], 0)
				}
				atomic.AddInt32(&done, 1)
			}
		}(p)
	}
	now := 0
	for r := 1; r <= s.Rounds; r++ {
		if rng.Intn(4) == 0 {
			now++
		}
		cur.v, cur.now = rng.Intn(s.Vals), now
		atomic.StoreInt32(&done, 0)
		atomic.StoreInt32(&round, int32(r))
		for atomic.LoadInt32(&done) < int32(P) {
			runtime.Gosched()
		}
		nnew := 0
		for p := range res {
			if atomic.LoadInt32(&res[p]) == 0 {
				nnew++
			}
		}
		n, m, c := f.VerifState()
		w.Emit(vt.Ev{"event": "Round", "v": cur.v, "now": now, "procs": P, "nnew": nnew, "size": n, "cons": c && n == m})
	}
	wg.Wait()
}
