package refss

import (
	"bytes"
	"crypto/sha256"
	"encoding/base32"
	"encoding/json"
	"errors"
	"fmt"
	"io"
	mrand "math/rand"
	"net"
	"os"
	"path/filepath"
	"sync"
	"testing"
	"time"

	pt "gitlab.torproject.org/tpo/anti-censorship/pluggable-transports/goptlib"
	"golang.org/x/crypto/hkdf"

	"gitlab.com/yawning/obfs4.git/common/uniformdh"
	"gitlab.com/yawning/obfs4.git/transports/base"
	"gitlab.com/yawning/obfs4.git/transports/scramblesuit"

	"verif.local/harness/wire"
)

var testSecret = []byte("0123456789abcdefghij") // 20 bytes

const testAddr = "192.0.2.1:443"

func detRand(seed int64) io.Reader { return mrand.New(mrand.NewSource(seed)) }

func pattern(n int, seed byte) []byte {
	b := make([]byte, n)
	for i := range b {
		b[i] = byte(i*7) ^ seed ^ byte(i>>8)
	}
	return b
}

// recorder tees everything read from the underlying conn.
type recorder struct {
	io.ReadWriter
	mu sync.Mutex
	rx []byte
}

func (r *recorder) Read(b []byte) (int, error) {
	n, err := r.ReadWriter.Read(b)
	r.mu.Lock()
	r.rx = append(r.rx, b[:n]...)
	r.mu.Unlock()
	return n, err
}

func (r *recorder) bytes() []byte {
	r.mu.Lock()
	defer r.mu.Unlock()
	return append([]byte(nil), r.rx...)
}

func newFactory(t *testing.T, stateDir string) (base.ClientFactory, any) {
	t.Helper()
	cf, err := (&scramblesuit.Transport{}).ClientFactory(stateDir)
	if err != nil {
		t.Fatalf("ClientFactory: %v", err)
	}
	args, err := cf.ParseArgs(&pt.Args{"password": {base32.StdEncoding.EncodeToString(testSecret)}})
	if err != nil {
		t.Fatalf("ParseArgs: %v", err)
	}
	return cf, args
}

type acceptResult struct {
	c   *Conn
	err error
}

// session runs the real client's Dial against srv.Accept over a fresh link.
func session(t *testing.T, cf base.ClientFactory, args any, srv *Server, padLen int, split []int) (net.Conn, *Conn, *recorder, *wire.Link) {
	t.Helper()
	l := wire.NewLink(true, 0)
	rec := &recorder{ReadWriter: l.B}
	ch := make(chan acceptResult, 1)
	go func() {
		c, err := srv.Accept(rec, padLen, split)
		ch <- acceptResult{c, err}
	}()
	cc, err := cf.Dial("tcp", testAddr, func(string, string) (net.Conn, error) { return l.A, nil }, args)
	if err != nil {
		t.Fatalf("client Dial: %v", err)
	}
	select {
	case r := <-ch:
		if r.err != nil {
			t.Fatalf("server Accept: %v", r.err)
		}
		return cc, r.c, rec, l
	case <-time.After(20 * time.Second):
		t.Fatalf("server Accept did not return")
	}
	return nil, nil, nil, nil
}

// exchange pushes several KB both ways, including one 10000-byte write each.
func exchange(t *testing.T, cc net.Conn, sc *Conn) {
	t.Helper()
	sizes := []int{1, 100, 1427, 1428, 3000, 10000, 17}
	// client -> server
	for i, n := range sizes {
		msg := pattern(n, byte(i))
		if w, err := cc.Write(msg); err != nil || w != n {
			t.Fatalf("client Write(%d) = %d, %v", n, w, err)
		}
		got, err := sc.ReadPayload(n)
		if err != nil {
			t.Fatalf("server ReadPayload(%d): %v", n, err)
		}
		if !bytes.Equal(got, msg) {
			t.Fatalf("client->server %d bytes corrupted", n)
		}
	}
	// server -> client, with assorted padding in the last packet
	pads := []int{0, 1, 0, 1426, 100, 0, 1410}
	for i, n := range sizes {
		msg := pattern(n, byte(0x80+i))
		if err := sc.WritePayload(msg, pads[i]%(MaxPayload-(n%MaxPayload)+1)); err != nil {
			t.Fatalf("server WritePayload(%d): %v", n, err)
		}
		got := make([]byte, n)
		if _, err := io.ReadFull(cc, got); err != nil {
			t.Fatalf("client Read(%d): %v", n, err)
		}
		if !bytes.Equal(got, msg) {
			t.Fatalf("server->client %d bytes corrupted", n)
		}
	}
}

func TestUniformDHHandshakeAndData(t *testing.T) {
	for i, pad := range []int{0, 1, 700, MaxPadding} {
		pad := pad
		t.Run(fmt.Sprintf("pad%d", pad), func(t *testing.T) {
			cf, args := newFactory(t, t.TempDir())
			srv := NewServer(testSecret, detRand(int64(100+i)))
			cc, sc, rec, l := session(t, cf, args, srv, pad, nil)
			defer cc.Close()

			ri := sc.Info
			if ri.Kind != KindUniformDH {
				t.Fatalf("kind = %q", ri.Kind)
			}
			if ri.PadLen < 0 || ri.PadLen > MaxPadding || ri.Consumed != PubLen+ri.PadLen+MarkLen+MacLen || ri.Consumed > MaxHandshake {
				t.Fatalf("bad request geometry: %+v", ri)
			}
			if ri.EpochOffset != 0 || ri.Epoch != time.Now().Unix()/3600 {
				t.Fatalf("epoch %d offset %d", ri.Epoch, ri.EpochOffset)
			}
			if got := len(rec.bytes()); got != ri.Consumed {
				t.Fatalf("client sent %d bytes before the reply, request is %d", got, ri.Consumed)
			}
			if w := l.B.WriteLog(); len(w) != 1 || w[0] != PubLen+pad+MarkLen+MacLen {
				t.Fatalf("reply writes = %v", w)
			}
			exchange(t, cc, sc)

			// A PRNG seed packet must be accepted and must not disturb the stream.
			if err := sc.SendPrngSeed(pattern(PrngSeedLen, 9)); err != nil {
				t.Fatal(err)
			}
			exchange(t, cc, sc)

			// Client packets never exceed the MTU and padding is all-zero.
			if _, err := cc.Write([]byte("x")); err != nil {
				t.Fatal(err)
			}
			seenPayload := false
			for !seenPayload {
				p, err := sc.ReadPacket()
				if err != nil {
					t.Fatal(err)
				}
				if p.TotalLen+HeaderLen > MaxPacket || p.Flags != FlagPayload {
					t.Fatalf("odd client packet %+v", p)
				}
				seenPayload = len(p.Payload) == 1 && p.Payload[0] == 'x'
			}
		})
	}
}

func readTicketFile(t *testing.T, dir string) map[string]struct {
	KeyTicket string `json:"key-ticket"`
	IssuedAt  int64  `json:"issuedAt"`
} {
	t.Helper()
	raw, err := os.ReadFile(filepath.Join(dir, "scramblesuit_tickets.json"))
	if err != nil {
		t.Fatalf("ticket file: %v", err)
	}
	m := map[string]struct {
		KeyTicket string `json:"key-ticket"`
		IssuedAt  int64  `json:"issuedAt"`
	}{}
	if err := json.Unmarshal(raw, &m); err != nil {
		t.Fatalf("ticket file %q: %v", raw, err)
	}
	return m
}

func TestTicketHandshake(t *testing.T) {
	dir := t.TempDir()
	srv := NewServer(testSecret, detRand(7))

	// 1st connection: UniformDH, then the server issues a ticket.
	cf, args := newFactory(t, dir)
	cc, sc, _, _ := session(t, cf, args, srv, 33, nil)
	if sc.Info.Kind != KindUniformDH {
		t.Fatalf("first connection used %q", sc.Info.Kind)
	}
	tk, mk, err := sc.IssueTicket()
	if err != nil {
		t.Fatal(err)
	}
	// The client only processes packets while Read is called.
	if err := sc.WritePayload([]byte("hello"), 10); err != nil {
		t.Fatal(err)
	}
	hello := make([]byte, 5)
	if _, err := io.ReadFull(cc, hello); err != nil || string(hello) != "hello" {
		t.Fatalf("read hello: %q %v", hello, err)
	}
	exchange(t, cc, sc)
	cc.Close()

	// Ticket file: JSON map keyed by the conn's RemoteAddr().String().
	m := readTicketFile(t, dir)
	ent, ok := m["127.0.0.1:40002"]
	if !ok || len(m) != 1 {
		t.Fatalf("ticket file content: %+v", m)
	}
	raw, err := base32.StdEncoding.DecodeString(ent.KeyTicket)
	if err != nil || !bytes.Equal(raw, append(append([]byte(nil), mk[:]...), tk[:]...)) {
		t.Fatalf("stored key-ticket mismatch (%v)", err)
	}
	if d := time.Now().Unix() - ent.IssuedAt; d < 0 || d > 60 {
		t.Fatalf("issuedAt = %d", ent.IssuedAt)
	}

	// 2nd connection, fresh factory from the same state dir: ticket handshake.
	cf2, args2 := newFactory(t, dir)
	cc2, sc2, rec2, l2 := session(t, cf2, args2, srv, 0, nil)
	ri := sc2.Info
	if ri.Kind != KindTicket {
		t.Fatalf("second connection used %q", ri.Kind)
	}
	if !bytes.Equal(ri.Ticket, tk[:]) || !bytes.Equal(sc2.MasterKey, mk[:]) {
		t.Fatalf("ticket / master key mismatch")
	}
	if ri.PadLen < 0 || ri.PadLen > MaxTicketPadding || ri.Consumed != TicketLen+ri.PadLen+MarkLen+MacLen {
		t.Fatalf("bad ticket request geometry %+v", ri)
	}
	if w := l2.B.WriteLog(); len(w) != 0 {
		t.Fatalf("server wrote %v during a ticket handshake", w)
	}
	exchange(t, cc2, sc2)
	cc2.Close()
	if m := readTicketFile(t, dir); len(m) != 0 {
		t.Fatalf("ticket not removed from the store after use: %+v", m)
	}

	// Replaying the recorded ticket request is refused.
	req := rec2.bytes()[:ri.Consumed]
	if _, err := srv.ParseRequest(req); !errors.Is(err, ErrReplayedTicket) {
		t.Fatalf("replayed ticket: %v", err)
	}
	lr := wire.NewLink(true, 0)
	lr.B.Deliver(req)
	if _, err := srv.Accept(lr.B, 0, nil); !errors.Is(err, ErrReplayedTicket) {
		t.Fatalf("replayed ticket Accept: %v", err)
	}
	// A ticket sealed under the server's keys but absent from the table.
	delete(srv.Issued, tk)
	if _, err := srv.ParseRequest(req); !errors.Is(err, ErrUnknownTicket) {
		t.Fatalf("unknown ticket: %v", err)
	}

	// 3rd connection: no ticket left, back to UniformDH.
	cf3, args3 := newFactory(t, dir)
	cc3, sc3, _, _ := session(t, cf3, args3, srv, 5, nil)
	if sc3.Info.Kind != KindUniformDH {
		t.Fatalf("third connection used %q", sc3.Info.Kind)
	}
	exchange(t, cc3, sc3)
	cc3.Close()
}

// TestReplySplitInsideMAC documents (without failing) what the pinned client
// does when the server reply is cut so that the mark M_S is complete but the
// trailing MAC is not: cut offsets len-16 .. len-1 (a cut exactly BEFORE the
// MAC counts too). With no padding the client is saved by its "fewer than 224
// bytes" guard.
func TestReplySplitInsideMAC(t *testing.T) {
	for _, tc := range []struct{ pad, back int }{{0, 8}, {700, 8}, {1000, 8}, {300, 16}, {300, 1}, {MaxPadding, 8}} {
		pad := tc.pad
		cf, args := newFactory(t, t.TempDir())
		srv := NewServer(testSecret, detRand(int64(pad)))
		l := wire.NewLink(true, 0)
		replyLen := PubLen + pad + MarkLen + MacLen
		go func() { _, _ = srv.Accept(l.B, pad, []int{replyLen - tc.back}) }()

		type res struct {
			err      error
			panicked any
		}
		ch := make(chan res, 1)
		go func() {
			var r res
			defer func() {
				r.panicked = recover()
				ch <- r
			}()
			var c net.Conn
			c, r.err = cf.Dial("tcp", testAddr, func(string, string) (net.Conn, error) { return l.A, nil }, args)
			if c != nil {
				c.Close()
			}
		}()
		what := fmt.Sprintf("pad=%d, %d-byte reply cut %d bytes before its end", pad, replyLen, tc.back)
		select {
		case r := <-ch:
			switch {
			case r.panicked != nil:
				t.Logf("%s: client PANICKED: %v", what, r.panicked)
			case r.err != nil:
				t.Logf("%s: client Dial FAILED: %v", what, r.err)
			default:
				t.Logf("%s: client handshake succeeded", what)
			}
		case <-time.After(10 * time.Second):
			t.Logf("%s: client Dial still blocked after 10s", what)
		}
		l.A.Close()
		l.B.Close()
	}
}

// A reply split anywhere else is fine.
func TestReplySplitElsewhere(t *testing.T) {
	pad := 300
	n := PubLen + pad + MarkLen + MacLen
	for i, split := range [][]int{{1}, {PubLen}, {100, 250, PubLen + pad, PubLen + pad + 5}, {n - MacLen - 1}, {PubLen + pad + 1, n - MacLen - 1}} {
		cf, args := newFactory(t, t.TempDir())
		srv := NewServer(testSecret, detRand(int64(i)))
		cc, sc, _, l := session(t, cf, args, srv, pad, split)
		if w := l.B.WriteLog(); len(w) != len(split)+1 {
			t.Fatalf("split %v: writes %v", split, w)
		}
		if err := sc.WritePayload([]byte("ok"), 0); err != nil {
			t.Fatal(err)
		}
		b := make([]byte, 2)
		if _, err := io.ReadFull(cc, b); err != nil || string(b) != "ok" {
			t.Fatalf("split %v: %q %v", split, b, err)
		}
		cc.Close()
	}
}

// captureRequest returns the real client's UniformDH request.
func captureRequest(t *testing.T, srv *Server) []byte {
	t.Helper()
	cf, args := newFactory(t, t.TempDir())
	cc, sc, rec, _ := session(t, cf, args, srv, 0, nil)
	defer cc.Close()
	return rec.bytes()[:sc.Info.Consumed]
}

func TestParseRequest(t *testing.T) {
	srv := NewServer(testSecret, detRand(1))
	req := captureRequest(t, srv)

	for i := 0; i < len(req); i++ {
		if _, err := srv.ParseRequest(req[:i]); !errors.Is(err, ErrNeedMore) {
			t.Fatalf("prefix %d/%d: %v", i, len(req), err)
		}
	}
	ri, err := srv.ParseRequest(append(append([]byte(nil), req...), "trailing"...))
	if err != nil || ri.Consumed != len(req) || ri.Kind != KindUniformDH {
		t.Fatalf("full request: %+v %v", ri, err)
	}

	bad := append([]byte(nil), req...)
	bad[len(bad)-1] ^= 1
	if _, err := srv.ParseRequest(bad); !errors.Is(err, ErrMac) {
		t.Fatalf("tampered MAC: %v", err)
	}
	bad = append([]byte(nil), req...)
	bad[0] ^= 1 // public value changes -> mark no longer matches
	if _, err := srv.ParseRequest(bad); len(bad) < MaxHandshake && !errors.Is(err, ErrNeedMore) {
		t.Fatalf("tampered X, short: %v", err)
	}
	bad = append(bad, make([]byte, MaxHandshake-len(bad))...)
	if _, err := srv.ParseRequest(bad); !errors.Is(err, ErrMark) {
		t.Fatalf("tampered X, full length: %v", err)
	}
	wrong := NewServer([]byte("another-secret-12345"), detRand(1))
	if _, err := wrong.ParseRequest(append(append([]byte(nil), req...), make([]byte, MaxHandshake)...)); !errors.Is(err, ErrMark) {
		t.Fatalf("wrong k_B: %v", err)
	}

	// Epoch window: the server accepts E-1, E, E+1.
	for _, c := range []struct {
		shift time.Duration
		off   int
		ok    bool
	}{{0, 0, true}, {time.Hour, -1, true}, {-time.Hour, 1, true}, {2 * time.Hour, 0, false}, {-2 * time.Hour, 0, false}} {
		c := c
		srv.Now = func() time.Time { return time.Now().Add(c.shift) }
		ri, err := srv.ParseRequest(req)
		if c.ok && (err != nil || ri.EpochOffset != c.off) {
			t.Fatalf("shift %v: %+v %v", c.shift, ri, err)
		}
		if !c.ok && !errors.Is(err, ErrMac) {
			t.Fatalf("shift %v: %v", c.shift, err)
		}
	}
}

// The client verifies the reply MAC with the epoch IT used, so a server whose
// clock is an hour off must echo the client's epoch.
func TestSkewedServerClock(t *testing.T) {
	for _, shift := range []time.Duration{time.Hour, -time.Hour} {
		shift := shift
		cf, args := newFactory(t, t.TempDir())
		srv := NewServer(testSecret, detRand(3))
		srv.Now = func() time.Time { return time.Now().Add(shift) }
		cc, sc, _, _ := session(t, cf, args, srv, 10, nil)
		if sc.Info.EpochOffset == 0 {
			t.Fatalf("shift %v: offset 0", shift)
		}
		if err := sc.WritePayload([]byte("ok"), 0); err != nil {
			t.Fatal(err)
		}
		b := make([]byte, 2)
		if _, err := io.ReadFull(cc, b); err != nil || string(b) != "ok" {
			t.Fatalf("%q %v", b, err)
		}
		cc.Close()
	}
}

func TestDeterministic(t *testing.T) {
	srv := NewServer(testSecret, nil)
	req := captureRequest(t, srv)
	fixed := time.Now()
	var out [2][]byte
	for i := range out {
		s := NewServer(testSecret, detRand(42))
		s.Now = func() time.Time { return fixed }
		l := wire.NewLink(false, 0)
		l.B.Deliver(req)
		c, err := s.Accept(l.B, 123, nil)
		if err != nil {
			t.Fatal(err)
		}
		if err = c.WritePayload([]byte("abc"), 5); err != nil {
			t.Fatal(err)
		}
		if _, _, err = c.IssueTicket(); err != nil {
			t.Fatal(err)
		}
		out[i] = l.B.Take()
	}
	if len(out[0]) != PubLen+123+32+(HeaderLen+8)+(HeaderLen+144) || !bytes.Equal(out[0], out[1]) {
		t.Fatalf("server output not deterministic given Rand (%d / %d bytes)", len(out[0]), len(out[1]))
	}
}

func TestTamperedPacket(t *testing.T) {
	cf, args := newFactory(t, t.TempDir())
	srv := NewServer(testSecret, detRand(5))
	cc, sc, _, _ := session(t, cf, args, srv, 0, nil)
	defer cc.Close()
	pkt := sc.BuildPacket(FlagPayload, []byte("payload"), 3)
	if len(pkt) != HeaderLen+10 {
		t.Fatalf("packet length %d", len(pkt))
	}
	pkt[len(pkt)-1] ^= 0x80
	if err := sc.WriteRaw(pkt); err != nil {
		t.Fatal(err)
	}
	if _, err := cc.Read(make([]byte, 16)); !errors.Is(err, scramblesuit.ErrInvalidPacket) {
		t.Fatalf("client accepted a tampered packet: %v", err)
	}
}

func TestServerRejectsTamperedClientPacket(t *testing.T) {
	srv := NewServer(testSecret, detRand(6))
	mk := sha256.Sum256([]byte("mk"))
	// Loop a server Conn's own output back through a client-keyed view.
	var wireBuf bytes.Buffer
	tx := srv.NewConn(&wireBuf, mk[:], nil)
	pkt := tx.BuildPacket(FlagPayload, []byte("data"), 0)
	pkt[MacLen+6] ^= 1
	rx := srv.NewConn(bytes.NewBuffer(pkt), mk[:], nil)
	// swap directions: decode with the s2c keys
	rx.rx, rx.rxMac = newCTR(rx.Keys.S2CKey, rx.Keys.S2CIV), rx.Keys.S2CMac
	if _, err := rx.ReadPacket(); !errors.Is(err, ErrMac) {
		t.Fatalf("want ErrMac, got %v", err)
	}
}

func TestHKDFMatchesXCrypto(t *testing.T) {
	for _, info := range [][]byte{nil, []byte("info")} {
		prk := sha256.Sum256([]byte("prk"))
		want := make([]byte, 200)
		if _, err := io.ReadFull(hkdf.Expand(sha256.New, prk[:], info), want); err != nil {
			t.Fatal(err)
		}
		if got := HKDFExpandSHA256(prk[:], info, 200); !bytes.Equal(got, want) {
			t.Fatalf("HKDF mismatch (info=%q)", info)
		}
	}
}

func TestUniformDHInterop(t *testing.T) {
	for seed := int64(0); seed < 4; seed++ {
		theirs, err := uniformdh.GenerateKey(detRand(seed))
		if err != nil {
			t.Fatal(err)
		}
		priv, flip, err := DHGenPrivate(detRand(seed))
		if err != nil {
			t.Fatal(err)
		}
		mine := DHPublic(priv, flip)
		tb, _ := theirs.PublicKey.Bytes()
		if !bytes.Equal(mine[:], tb) {
			t.Fatalf("seed %d: public value differs from the implementation's", seed)
		}
		// shared secret against an independent peer key, both coin flips
		peerPriv, _, _ := DHGenPrivate(detRand(seed + 100))
		for _, f := range []bool{false, true} {
			peerPub := DHPublic(peerPriv, f)
			var pk uniformdh.PublicKey
			if err := pk.SetBytes(peerPub[:]); err != nil {
				t.Fatal(err)
			}
			want, _ := uniformdh.Handshake(theirs, &pk)
			got, _ := DHShared(priv, peerPub[:])
			other, _ := DHShared(peerPriv, mine[:])
			if !bytes.Equal(got, want) || !bytes.Equal(got, other) {
				t.Fatalf("seed %d flip %v: shared secret mismatch", seed, f)
			}
		}
	}
}

func TestTicketSeal(t *testing.T) {
	var k TicketKeys
	copy(k.AES[:], pattern(32, 1))
	copy(k.HMAC[:], pattern(32, 2))
	var iv [16]byte
	copy(iv[:], pattern(16, 3))
	mk := pattern(32, 4)
	now := time.Unix(1700000000, 0)
	tk := k.Seal(iv, mk, now)
	got, at, ok := k.Unseal(tk[:])
	if !ok || !bytes.Equal(got, mk) || !at.Equal(now) {
		t.Fatalf("unseal: %v %x %v", ok, got, at)
	}
	tk[50] ^= 1
	if _, _, ok := k.Unseal(tk[:]); ok {
		t.Fatalf("tampered ticket unsealed")
	}
}
