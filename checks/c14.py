"""C14 - obfs2: stream integrity and spec conformance.

specs:    specs/obfs2/Obfs2.tla (implementation shaped, exhaustive incl. liveness), lib/ByteStream.tla
          (property level), Obfs2Trace.tla
binding:  sessions real<->real, real<->reference (both roles) with scripted segmentation (whole, fixed, byte by
          byte, random, every split point of the handshake prefix, coalescing), padding boundaries forced from
          the reference side, concurrent writers; the handshake a real endpoint emits is decoded with the
          reference implementation; corrupted magic bits and oversized padding lengths are shown to the real
          endpoints.  All traces validated by TLC against ByteStream + the obfs2 rules.
"""
import json, random
from vlib.core import Inconclusive

SIZES = [0, 1, 2, 15, 16, 17, 100, 1448, 4096, 8192, 20000]


def policy(rng, kind=None):
    kind = kind or rng.choice(["whole", "fixed", "byte", "random", "script", "whole"])
    p = {"mode": kind, "seed": rng.randrange(1 << 30)}
    if kind == "fixed":
        p["k"] = rng.choice([1, 2, 7, 16, 24, 100, 1448])
    if kind == "script":
        p["list"] = [rng.choice([1, 2, 8, 15, 16, 17, 23, 24, 25, 100]) for _ in range(rng.randrange(1, 6))]
    if rng.random() < 0.3:
        p["delay"] = rng.choice([200, 1000])
    return p


def gen(ctx):
    quick = ctx.quick()
    rng = random.Random(ctx.seed * 2654435 + 14)
    scen = []
    combos = [("real", "real"), ("real", "ref"), ("ref", "real")]
    n = 60 if quick else 2500
    for i in range(n):
        c, s = combos[i % 3]
        nw = rng.randrange(0, 5)
        sc = {"cw": [rng.choice(SIZES) for _ in range(nw)], "sw": [rng.choice(SIZES) for _ in range(rng.randrange(0, 5))],
              "c2s": policy(rng), "s2c": policy(rng), "rbuf": rng.choice([[4096], [1], [7, 1, 4096], [65536], [16, 24, 8]]),
              "lockstep": rng.random() < 0.3, "quiesce_each": rng.random() < 0.5}
        if sc["c2s"]["mode"] == "byte" or sc["s2c"]["mode"] == "byte":   # keep byte-by-byte sessions small
            sc["cw"] = [min(x, 300) for x in sc["cw"]]
            sc["sw"] = [min(x, 300) for x in sc["sw"]]
        scen.append({"id": "sess%d" % i, "kind": "session", "client": c, "server": s,
                     "cpad": rng.choice([0, 1, 8191, 8192, -1]), "spad": rng.choice([0, 1, 8191, 8192, -1]), "script": sc})
    # every split point of the 24-byte handshake prefix (and around the end of the padding), per role
    for c, s in (("real", "ref"), ("ref", "real")):
        for pad in (0, 1, 8192):
            cuts = list(range(1, 27)) + ([24 + pad - 1, 24 + pad, 24 + pad + 1] if pad > 2 else [])
            if quick:
                cuts = cuts[::3] + [16, 24]
            for k in cuts:
                sc = {"cw": [5, 100], "sw": [7, 50], "c2s": {"mode": "script", "list": [k]}, "s2c": {"mode": "script", "list": [k]},
                      "rbuf": [4096], "lockstep": True, "quiesce_each": True}
                scen.append({"id": "split-%s-%s-%d-%d" % (c, s, pad, k), "kind": "session", "client": c, "server": s, "cpad": pad, "spad": pad, "script": sc})
    # the peer speaks first: the tail of a handshake (padding) and the first application bytes in ONE segment, per
    # direction (the sending application writes as soon as its own handshake is done)
    k = 0
    for c, s in combos:
        for pad in ((0, 100, 1023, 1024, 1025, 8192) if not quick else (0, 100, 1025, 8192)):
            for hold in (("c2s",), ("s2c",)):
                sc = {"cw": [65, 1448], "sw": [33, 4096], "c2s": {"mode": rng.choice(["whole", "whole", "fixed"]), "k": 1448, "seed": k},
                      "s2c": {"mode": rng.choice(["whole", "whole", "fixed"]), "k": 1448, "seed": k + 1},
                      "rbuf": rng.choice([[4096], [7, 1, 4096]]), "lockstep": False, "quiesce_each": False}
                for d in hold:
                    sc[d]["hold_first_write"] = True
                scen.append({"id": "first-%s-%s-%d-%s" % (c, s, pad, "+".join(hold)), "kind": "session", "client": c, "server": s,
                             "cpad": pad, "spad": pad, "script": sc})
                k += 2
    # a side writes its last bytes and closes at once: the peer reads all of them before the end of the stream, also when the
    # last bytes and the end arrive in ONE Read of the underlying connection and the application reads in small pieces
    kf = 0
    for c, s in combos:
        for d in ("c2s", "s2c"):
            for together, rbuf in ((False, [4096]), (True, [16]), (True, [70000])) if not quick else ((True, [16]),):
                sc = {"cw": [40], "sw": [33], "c2s": {"mode": "whole"}, "s2c": {"mode": "whole"}, "rbuf": rbuf, "lockstep": True, "quiesce_each": True,
                      "final": {"d": d, "n": [3000, 20000][kf % 2], "together": together}}
                scen.append({"id": "final%d" % kf, "kind": "session", "client": c, "server": s, "cpad": 100, "spad": 50, "script": sc}); kf += 1
    # reader and writer of one endpoint provably overlap (see harness/stream: during_write)
    for k2, (c, s) in enumerate(combos * (2 if quick else 8)):
        OV = k2 // 3
        sc = {"cw": [40, 1448, 10], "sw": [33, 1448, 7], "c2s": {"mode": "whole", "during_write": OV % 2 == 0}, "s2c": {"mode": "whole", "during_write": OV % 2 == 1},
              "rbuf": [4096], "lockstep": False, "quiesce_each": False}
        scen.append({"id": "overlap%d" % k2, "kind": "session", "client": c, "server": s, "cpad": 100, "spad": 50, "script": sc})
    # rejection: every magic bit, padlen boundaries
    j = 0
    for victim in ("client", "server"):
        for bit in range(32):
            scen.append({"id": "rej%d" % j, "kind": "reject", "victim": victim, "what": "badmagic", "bit": bit, "padlen": rng.choice([0, 5, 100]), "cut": rng.choice([0, 3, 17, 20])}); j += 1
        for padlen in (8193, 8194, 65536, 4294967295, 2147483648):
            scen.append({"id": "rej%d" % j, "kind": "reject", "victim": victim, "what": "longpad", "padlen": padlen, "cut": rng.choice([0, 20, 23])}); j += 1
        for padlen in (0, 1, 8191, 8192):
            scen.append({"id": "rej%d" % j, "kind": "reject", "victim": victim, "what": "ok", "padlen": padlen, "cut": rng.choice([0, 16, 24])}); j += 1
    return scen


def run(ctx):
    ctx.tlc_expect_ok("Obfs2", "Obfs2_MC.cfg", label="obfs2 handshake + stream, all chunkings (safety + liveness)", timeout=900)
    scen = gen(ctx)
    binary = ctx.go_build("./cmd/c14")
    traces = ctx.exec_scenarios(binary, scen, "c14", shards=14, timeout=1500)
    if len(traces) != len(scen) and not any(t.get("crashed") for t in traces):
        raise Inconclusive("%d scenarios, %d traces" % (len(scen), len(traces)))
    traces = ctx.drop_dead(traces)
    nev = sum(len(t["events"]) for t in traces)
    ctx.sample({"scenario": traces[0]["scenario"], "events": traces[0]["events"][:8]})
    ctx.sample({"scenario": traces[-1]["scenario"], "events": traces[-1]["events"]})
    rejected = ctx.validate("Obfs2Trace", "Obfs2Trace.cfg", traces, label="trace validation", timeout=1800, max_rejects=6)
    ctx.log("%d scenarios, %d events, %d rejected" % (len(traces), nev, len(rejected)))

    def reexec(tr):
        t2 = ctx.exec_scenarios(binary, [tr["scenario"]], "re", timeout=300)
        rej = ctx.validate("Obfs2Trace", "Obfs2Trace.cfg", t2, label="re-validation")
        return rej[0] if rej else None
    ctx.settle(rejected, reexec, lambda tr: "obfs2 session rejected at event %s: %s (scenario %s)" % (
        tr["reject"]["at_event_index"], json.dumps(tr["reject"]["event"])[:300], json.dumps(tr["scenario"])[:500]), attempts=2)
    ctx.assumptions += ["payload byte i of direction d is PRF(d,i); quiescence = nothing pending or in flight and both receivers parked in the wire",
                        "'follows the obfs2 specification' = interoperates with and is decodable by ref/obfs2 (written from the obfs2 protocol specification)"]
    return ctx.finish("model_checking", extra_cov={"events_validated": nev, "sessions": len(scen),
                      "rule": "seeded random sessions over 3 peer combinations x chunk policies x write sizes x read buffers; every split point of the "
                              "handshake prefix per role and padding boundary; every magic bit and padlen boundary as rejection scenarios"})


def replay(ctx, path):
    v = json.load(open(path))
    binary = ctx.go_build("./cmd/c14")
    traces = ctx.exec_scenarios(binary, [v["scenario"]], "replay", timeout=300)
    for t in ctx.validate("Obfs2Trace", "Obfs2Trace.cfg", traces, label="replay"):
        ctx.report_violation(t, "replayed scenario rejected")
    return ctx.finish("model_checking")
