SPECIFICATION Spec
CONSTANTS
    MaxTickets = 3
    MaxSteps = 7
    Faults = TRUE
    SendDespiteFault = TRUE
INVARIANTS TicketAtMostOnce
CHECK_DEADLOCK FALSE
