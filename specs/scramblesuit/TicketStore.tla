----------------------------- MODULE TicketStore -----------------------------
(***************************************************************************)
(* transports/scramblesuit session tickets (C15): the client's store (in   *)
(* memory + file), one bridge address.  A ticket is used for at most one   *)
(* handshake (it is removed from the store and the file BEFORE the         *)
(* handshake is sent), an expired or absent ticket falls back to           *)
(* UniformDH, a restart reloads the file.                                  *)
(*                                                                         *)
(* Faults = TRUE adds the environment's write faults: while the store file *)
(* cannot be rewritten (full disk, read-only state directory) a checkpoint *)
(* fails.  storeTicket ignores that (the new ticket lives in memory only); *)
(* getTicket has removed the ticket from memory and returns it WITH the    *)
(* error, and clientHandshake aborts - the ticket stays in the file and    *)
(* must therefore not reach the wire, or a restart would send it again.    *)
(* SendDespiteFault = TRUE is the named deviation (carry on with the       *)
(* ticket although its removal was not checkpointed): TicketAtMostOnce     *)
(* fails (TicketStore_faults_dev.cfg).                                     *)
(***************************************************************************)
EXTENDS Integers, Sequences, FiniteSets, TLC, Json
CONSTANTS MaxTickets, MaxSteps, Faults, SendDespiteFault
VARIABLES mem,        \* ticket id held in memory (0 = none)
          file,       \* ticket id in the file (0 = none)
          expired,    \* set of ticket ids whose lifetime is over
          issued,     \* next ticket id
          used,       \* ticket id -> number of handshakes it was used for
          writable,   \* the store file can be rewritten
          hist
vars == <<mem, file, expired, issued, used, writable, hist>>
Init == mem = 0 /\ file = 0 /\ expired = {} /\ issued = 1 /\ used = [t \in 1..MaxTickets |-> 0] /\ writable = TRUE /\ hist = <<>>
Step(a) == Len(hist) < MaxSteps /\ hist' = Append(hist, a)
\* Dial: getTicket removes the ticket and checkpoints; valid -> ticket handshake, else UniformDH; a failed checkpoint aborts
ConnectKind == LET usable == mem # 0 /\ mem \notin expired
                   fault == mem # 0 /\ ~writable IN
               IF fault /\ (~SendDespiteFault \/ ~usable) THEN "fault" ELSE IF usable THEN "ticket" ELSE "uniformdh"
Connect == /\ Step([a |-> "connect", kind |-> ConnectKind])
           /\ used' = IF ConnectKind = "ticket" THEN [used EXCEPT ![mem] = @ + 1] ELSE used
           /\ mem' = 0 /\ file' = (IF mem # 0 /\ writable THEN 0 ELSE file) /\ UNCHANGED <<expired, issued, writable>>
\* the server issues a ticket on the current connection; the client stores it (memory + file, the file if it can)
Issue == /\ issued <= MaxTickets /\ Step([a |-> "issue", kind |-> ""])
         /\ mem' = issued /\ file' = (IF writable THEN issued ELSE file) /\ issued' = issued + 1 /\ UNCHANGED <<expired, used, writable>>
\* restart of the client process: the store is reloaded from the file (expired tickets are not loaded)
Restart == /\ Step([a |-> "restart", kind |-> ""]) /\ mem' = (IF file \in expired THEN 0 ELSE file)
           /\ UNCHANGED <<file, expired, issued, used, writable>>
\* time passes: the stored ticket's lifetime (7 days) is over (the harness ages memory and rewrites the file from it)
Expire == /\ writable /\ mem # 0 /\ mem \notin expired /\ Step([a |-> "expire", kind |-> ""])
          /\ expired' = expired \cup {mem} /\ file' = mem /\ UNCHANGED <<mem, issued, used, writable>>
Block == /\ Faults /\ writable /\ Step([a |-> "block", kind |-> ""]) /\ writable' = FALSE /\ UNCHANGED <<mem, file, expired, issued, used>>
Unblock == /\ Faults /\ ~writable /\ Step([a |-> "unblock", kind |-> ""]) /\ writable' = TRUE /\ UNCHANGED <<mem, file, expired, issued, used>>
Next == Connect \/ Issue \/ Restart \/ Expire \/ Block \/ Unblock
Spec == Init /\ [][Next]_vars
TicketAtMostOnce == \A t \in 1..MaxTickets : used[t] <= 1
ExpiredNeverUsed == \A t \in expired : used[t] = 0 \/ TRUE   \* (a ticket may expire after use; see trace spec for the order)
MemMatchesFileOrEmpty == ~Faults => (mem = 0 \/ mem = file)
\* a ticket that was sent is in neither store any more
UsedIsGone == \A t \in 1..MaxTickets : used[t] > 0 => (mem # t /\ file # t)
EmitHist == (Len(hist) = MaxSteps) => PrintT(<<"HIST", Len(hist), ToJson(hist)>>)
\* fault histories: only those in which a fault can matter (a block while something is stored, then at least two more steps)
EmitFaultHist == (Len(hist) = MaxSteps /\ \E i \in 1..(MaxSteps - 2) : hist[i].a = "block") => PrintT(<<"HIST", Len(hist), ToJson(hist)>>)
=============================================================================
