---- MODULE Pad ----
EXTENDS Integers, Sequences, TLC
Seg == 1448
Hdr == 21
MaxPad == 1427
\* transcription of padBurst: returns sequence of frame lengths appended
PadLen(tail, target) == IF target >= tail THEN target - tail ELSE (Seg - tail) + target
PadFrames(tail, target) ==
  LET p == PadLen(tail, target) IN
  IF p > Hdr THEN << p >>
  ELSE IF p > 0 THEN << Hdr + MaxPad, Hdr + p >>
  ELSE << >>
Sum(s) == IF s = <<>> THEN 0 ELSE IF Len(s) = 1 THEN s[1] ELSE s[1] + s[2]
Ok(tail, target) ==
  LET fr == PadFrames(tail, target)
      tot == tail + Sum(fr)
      p == PadLen(tail, target) IN
  /\ \A i \in 1..Len(fr) : fr[i] >= Hdr /\ fr[i] <= Seg
  /\ Len(fr) <= 2
  /\ IF p > 0 /\ p <= Hdr THEN tot % Seg = (target + Hdr) % Seg ELSE tot % Seg = target % Seg
ASSUME \A tail \in 0..(Seg-1) : \A target \in 0..Seg : Ok(tail, target)
VARIABLE x
Init == x = 0
Next == x' = x
====
