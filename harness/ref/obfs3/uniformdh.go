package refobfs3

import (
	"math/big"
)

// UniformDH (obfs3-protocol-spec.txt, section "UniformDH"):
//
//   - the group is the 1536 bit MODP group of RFC 3526 (group 5), g = 2;
//   - a private key is a random 1536 bit number with its lowest bit cleared;
//   - X = g^x mod p; on the wire a party sends either X or p-X, chosen by a
//     fair coin, as a 192 byte big endian string;
//   - the shared secret is Y^x mod p (192 bytes big endian), which is the same
//     whichever of Y / p-Y was received because x is even.

// KeyLen is the size in bytes of UniformDH public keys and shared secrets.
const KeyLen = 1536 / 8

// ModP is the RFC 3526 1536 bit MODP prime:
// 2^1536 - 2^1472 - 1 + 2^64 * { [2^1406 pi] + 741804 }.
var ModP = func() *big.Int {
	const hex = "" +
		"FFFFFFFF FFFFFFFF C90FDAA2 2168C234 C4C6628B 80DC1CD1" +
		"29024E08 8A67CC74 020BBEA6 3B139B22 514A0879 8E3404DD" +
		"EF9519B3 CD3A431B 302B0A6D F25F1437 4FE1356D 6D51C245" +
		"E485B576 625E7EC6 F44C42E9 A637ED6B 0BFF5CB6 F406B7ED" +
		"EE386BFB 5A899FA5 AE9F2411 7C4B1FE6 49286651 ECE45B3D" +
		"C2007CB8 A163BF05 98DA4836 1C55D39A 69163FA8 FD24CF5F" +
		"83655D23 DCA3AD96 1C62F356 208552BB 9ED52907 7096966D" +
		"670C354E 4ABC9804 F1746C08 CA237327 FFFFFFFF FFFFFFFF"
	clean := make([]byte, 0, len(hex))
	for i := 0; i < len(hex); i++ {
		if hex[i] != ' ' {
			clean = append(clean, hex[i])
		}
	}
	p, ok := new(big.Int).SetString(string(clean), 16)
	if !ok || p.BitLen() != 1536 {
		panic("refobfs3: bad MODP constant")
	}
	return p
}()

var two = big.NewInt(2)

// PrivateFromBytes turns 192 random bytes into a UniformDH private key (the
// lowest bit is cleared).
func PrivateFromBytes(b []byte) *big.Int {
	x := new(big.Int).SetBytes(b)
	return x.SetBit(x, 0, 0)
}

// UniformDHPublic returns the wire form of the public key of priv: g^priv mod
// p, or p minus that when flip is set.
func UniformDHPublic(priv *big.Int, flip bool) [KeyLen]byte {
	x := new(big.Int).Exp(two, priv, ModP)
	if flip {
		x.Sub(ModP, x)
	}
	var out [KeyLen]byte
	x.FillBytes(out[:])
	return out
}

// UniformDHShared returns peer^priv mod p as 192 bytes, leading zeros kept.
func UniformDHShared(priv *big.Int, peer [KeyLen]byte) [KeyLen]byte {
	y := new(big.Int).SetBytes(peer[:])
	s := new(big.Int).Exp(y, priv, ModP)
	var out [KeyLen]byte
	s.FillBytes(out[:])
	return out
}
